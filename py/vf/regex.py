"""C18: parsing cost grows polynomially.

(1) Every regular expression the live library compiles (captured by wrapping ``re.compile`` / ``re._compile`` while the
    library is imported and all its parsers are exercised) is converted to a Thompson NFA, then to the epsilon-free
    multigraph of spec/RegexEDA.tla, and TLC checks NoEDA (no exponential degree of ambiguity) for every pivot state.
    A TLC counter-example (pivot, word) is pumped through the real compiled pattern in a subprocess; only a measured
    doubling makes it a violation (D10) - the NFA over-approximates what CPython's sre explores.
(2) The hand-written scanners and receive(): input families generated at sizes n, 2n, 4n, ... and, for nesting, depths
    d, d+1, ...; the cost is the number of Python line events inside sansldap (deterministic, sys.settrace), judged by
    its growth (polynomial degree <= 3.2, no constant-factor growth per added level).  This part is measurement on
    generated families, not model checking.
"""
from __future__ import annotations

import collections
import json
import os
import re
import shutil
import subprocess
import sys
import time
import typing as t

from . import common as C

try:
    import re._constants as K
    import re._parser as sre_parse
except ImportError:  # pragma: no cover
    import sre_constants as K  # type: ignore
    import sre_parse  # type: ignore


# ------------------------------------------------------------------------------------------------------------------
# capture of the patterns the library uses
# ------------------------------------------------------------------------------------------------------------------
def capture_patterns() -> t.List[t.Tuple[t.Any, int, str]]:
    """(pattern, flags, where) for every pattern compiled while sansldap is imported and exercised."""
    seen: "collections.OrderedDict[t.Tuple[t.Any, int], str]" = collections.OrderedDict()
    orig = re._compile  # type: ignore[attr-defined]

    def spy(pattern: t.Any, flags: int) -> t.Any:
        if isinstance(pattern, (str, bytes)):
            f = sys._getframe(1)
            where = ""
            for _ in range(6):
                if f is None:
                    break
                fn = f.f_code.co_filename
                if "sansldap" in fn:
                    where = f"{os.path.basename(fn)}:{f.f_lineno}"
                    break
                f = f.f_back
            if where:
                seen.setdefault((pattern, int(flags)), where)
        return orig(pattern, flags)

    for name in list(sys.modules):
        if name == "sansldap" or name.startswith("sansldap."):
            del sys.modules[name]
    re._compile = spy  # type: ignore[attr-defined]
    try:
        re.purge()
        C.use_repo()
        import sansldap
        import sansldap.schema as S

        # exercise every parser / serializer so that inline patterns (re.sub(...) with literal patterns) are seen too
        for tx in ("(cn=a\\2ab*c)", "(&(a:dn:1.2.3:=x)(!(b>=1)))", "(bad", "(1.2.3;x=*)"):
            try:
                f = sansldap.LDAPFilter.from_string(tx)
                str(f)
            except ValueError:
                pass
        str(sansldap.FilterEquality("a", b"\x00()*\\\xff"))
        for cls, tx in ((S.ObjectClassDescription, "( 1.2 NAME ( 'a' 'b' ) DESC 'x\\27\\5c' SUP ( a $ b ) MUST c X-A ( 'v' 'w' ) )"),
                        (S.AttributeTypeDescription, "( 1.2 NAME 'a' SYNTAX 1.2.3{64} X-B 'q' )"),
                        (S.AttributeTypeDescription, "( 1.2 SYNTAX '1.2.3{64}' )"),
                        (S.DITContentRuleDescription, "( 1.2 NOT ( a $ b ) )")):
            try:
                str(cls.from_string(tx))
            except ValueError:
                pass
    finally:
        re._compile = orig  # type: ignore[attr-defined]
    return [(p, fl, w) for (p, fl), w in seen.items()]


# ------------------------------------------------------------------------------------------------------------------
# regex -> Thompson NFA -> epsilon-free multigraph
# ------------------------------------------------------------------------------------------------------------------
class Unsupported(Exception):
    pass


class NFA:
    def __init__(self) -> None:
        self.n = 0
        self.eps: t.Dict[int, t.List[int]] = {}
        self.sym: t.Dict[int, t.List[t.Tuple[int, int]]] = {}

    def new(self) -> int:
        self.n += 1
        return self.n - 1

    def e(self, p: int, q: int) -> None:
        self.eps.setdefault(p, []).append(q)

    def s(self, p: int, cs: int, q: int) -> None:
        self.sym.setdefault(p, []).append((cs, q))


def _category(nm: str, ch: int, is_bytes: bool, flags: int) -> bool:
    c = chr(ch)
    ascii_only = is_bytes or bool(flags & re.ASCII)
    if "DIGIT" in nm:
        r = (48 <= ch <= 57) if ascii_only else c.isdigit()
    elif "SPACE" in nm:
        r = c in " \t\n\r\f\v" if ascii_only else c.isspace()
    elif "WORD" in nm:
        r = (c.isalnum() and ch < 128 or c == "_") if ascii_only else (c.isalnum() or c == "_")
    else:
        raise Unsupported(nm)
    return (not r) if "NOT" in nm else r


def charset(op: t.Any, av: t.Any, flags: int, is_bytes: bool) -> t.Callable[[int], bool]:
    if op == K.LITERAL:
        return lambda ch: ch == av
    if op == K.NOT_LITERAL:
        return lambda ch: ch != av
    if op == K.ANY:
        return (lambda ch: True) if flags & re.DOTALL else (lambda ch: ch != 10)
    if op == K.IN:
        neg = False
        preds: t.List[t.Callable[[int], bool]] = []
        for o, a in av:
            if o == K.NEGATE:
                neg = True
            elif o == K.LITERAL:
                preds.append(lambda ch, a=a: ch == a)
            elif o == K.RANGE:
                preds.append(lambda ch, a=a: a[0] <= ch <= a[1])
            elif o == K.CATEGORY:
                preds.append(lambda ch, nm=str(a): _category(nm, ch, is_bytes, flags))
            else:
                raise Unsupported(str(o))
        return (lambda ch: not any(p(ch) for p in preds)) if neg else (lambda ch: any(p(ch) for p in preds))
    raise Unsupported(str(op))


def boundaries(tree: t.Any, acc: t.Set[int]) -> None:
    for op, av in tree:
        if op in (K.LITERAL, K.NOT_LITERAL):
            acc.update([av, av + 1])
        elif op == K.ANY:
            acc.update([10, 11])
        elif op == K.IN:
            for o, a in av:
                if o == K.LITERAL:
                    acc.update([a, a + 1])
                elif o == K.RANGE:
                    acc.update([a[0], a[1] + 1])
                elif o == K.CATEGORY:
                    # representatives around ASCII classes plus some non-ASCII digits / letters / spaces
                    acc.update([9, 14, 32, 33, 48, 58, 65, 91, 95, 96, 97, 123, 0x85, 0x86, 0xA0, 0xA1, 0xAA, 0xAB, 0x660, 0x66A, 0x2028, 0x202A, 0x4E00, 0x4E01])
        elif op == K.BRANCH:
            for b in av[1]:
                boundaries(b, acc)
        elif op == K.SUBPATTERN:
            boundaries(av[-1], acc)
        elif op in (K.MAX_REPEAT, K.MIN_REPEAT):
            boundaries(av[2], acc)
        elif op == K.AT:
            pass
        else:
            raise Unsupported(str(op))  # look-arounds, back references, atomic groups, possessive repeats: fail closed


def build(nfa: NFA, tree: t.Any, start: int, flags: int, sets: t.List[t.Any], is_bytes: bool) -> int:
    cur = start
    for op, av in tree:
        if op in (K.LITERAL, K.NOT_LITERAL, K.ANY, K.IN):
            q = nfa.new()
            sets.append(charset(op, av, flags, is_bytes))
            nfa.s(cur, len(sets) - 1, q)
            cur = q
        elif op == K.BRANCH:
            end = nfa.new()
            for b in av[1]:
                s0 = nfa.new()
                nfa.e(cur, s0)
                e0 = build(nfa, b, s0, flags, sets, is_bytes)
                nfa.e(e0, end)
            cur = end
        elif op == K.SUBPATTERN:
            cur = build(nfa, av[-1], cur, flags, sets, is_bytes)
        elif op in (K.MAX_REPEAT, K.MIN_REPEAT):
            lo, hi, sub = av
            if lo > 64 or (hi != K.MAXREPEAT and hi > 64):
                raise Unsupported("large counted repeat")
            for _ in range(lo):
                cur = build(nfa, sub, cur, flags, sets, is_bytes)
            if hi == K.MAXREPEAT:
                loop = nfa.new()
                nfa.e(cur, loop)
                b0 = nfa.new()
                nfa.e(loop, b0)
                b1 = build(nfa, sub, b0, flags, sets, is_bytes)
                nfa.e(b1, loop)
                ex = nfa.new()
                nfa.e(loop, ex)
                cur = ex
            else:
                ex = nfa.new()
                for _ in range(hi - lo):
                    nfa.e(cur, ex)
                    cur = build(nfa, sub, cur, flags, sets, is_bytes)
                nfa.e(cur, ex)
                cur = ex
        elif op == K.AT:
            pass  # anchors: epsilon (over-approximation)
        else:
            raise Unsupported(str(op))
    return cur


def convert(pattern: t.Any, flags: int) -> t.Dict[str, t.Any]:
    is_bytes = isinstance(pattern, bytes)
    tree = sre_parse.parse(pattern, flags)
    fl = tree.state.flags
    acc: t.Set[int] = {0}
    boundaries(tree, acc)
    top = 256 if is_bytes else 0x110000
    reps = sorted(b for b in acc if 0 <= b < top)
    nfa = NFA()
    sets: t.List[t.Any] = []
    s0 = nfa.new()
    acc_state = build(nfa, tree, s0, fl, sets, is_bytes)
    anchors = {s0} | {q for p in nfa.sym for (_, q) in nfa.sym[p]}

    def eps_paths(p: int) -> t.List[t.Tuple[int, t.Tuple[int, ...]]]:
        out = []
        stack = [(p, (p,))]
        while stack:
            st, path = stack.pop()
            out.append((st, path))
            for q in nfa.eps.get(st, []):
                if q not in path:
                    stack.append((q, path + (q,)))
            if len(out) > 200000:
                raise Unsupported("epsilon closure too large")
        return out

    edges = []
    eid = 0
    for a in sorted(anchors):
        for st, _path in eps_paths(a):
            for cs, q in nfa.sym.get(st, []):
                for ri, r in enumerate(reps):
                    if sets[cs](r):
                        edges.append((a, ri, q, eid))
                eid += 1
    return {"n": nfa.n, "start": s0, "anchors": sorted(anchors), "reps": reps, "edges": edges, "accept": acc_state}


def write_module(g: t.Dict[str, t.Any], name: str, wd: str) -> None:
    out: t.Dict[int, t.Dict[int, t.List[t.Tuple[int, int]]]] = {}
    for a, c, q, e in g["edges"]:
        out.setdefault(a, {}).setdefault(c, []).append((q, e))
    ncls = len(g["reps"])

    def tset(xs: t.Iterable[str]) -> str:
        return "{" + ", ".join(xs) + "}"

    rows = []
    for a in g["anchors"]:
        cols = [tset(f"<<{q},{e}>>" for (q, e) in out.get(a, {}).get(c, [])) for c in range(ncls)]
        rows.append(f"{a} :> <<" + ", ".join(cols) + ">>")
    body = ["---- MODULE NfaData ----", "EXTENDS Naturals, TLC",
            "Anchors == " + tset(str(a) for a in g["anchors"]),
            f"Classes == 1..{ncls}",
            "Out == " + " @@ ".join(rows), "===="]
    d = os.path.join(wd, name)
    os.makedirs(d, exist_ok=True)
    with open(os.path.join(d, "NfaData.tla"), "w") as f:
        f.write("\n".join(body))
    shutil.copy(os.path.join(C.SPEC, "RegexEDA.tla"), d)
    shutil.copy(os.path.join(C.SPEC, "RegexEDA.cfg"), d)


def witness_from(out: str) -> t.Optional[t.Tuple[int, t.List[int]]]:
    """(pivot, word as class indices) from a TLC counter-example of NoEDA."""
    if "Invariant NoEDA is violated" not in out:
        return None
    piv = None
    word: t.List[int] = []
    for m in re.finditer(r"State \d+:.*?(?=State \d+:|\Z)", out, flags=re.S):
        blk = m.group(0)
        mp = re.search(r"piv = (\d+)", blk)
        ms = re.search(r"sym = (\d+)", blk)
        if mp:
            piv = int(mp.group(1))
        if ms and int(ms.group(1)) > 0:
            word.append(int(ms.group(1)) - 1)
    return (piv, word) if piv is not None and word else None


def prefix_to(g: t.Dict[str, t.Any], target: int) -> t.Optional[t.List[int]]:
    adj: t.Dict[int, t.List[t.Tuple[int, int]]] = {}
    for a, c, q, _ in g["edges"]:
        adj.setdefault(a, []).append((c, q))
    prev: t.Dict[int, t.Tuple[int, int]] = {}
    dq = collections.deque([g["start"]])
    seen = {g["start"]}
    while dq:
        a = dq.popleft()
        if a == target:
            break
        for c, q in adj.get(a, []):
            if q not in seen:
                seen.add(q)
                prev[q] = (a, c)
                dq.append(q)
    if target not in seen:
        return None
    w: t.List[int] = []
    x = target
    while x != g["start"]:
        a, c = prev[x]
        w.append(c)
        x = a
    return w[::-1]


PUMP = r"""
import re, sys, time, json
pat = eval(sys.argv[1]); flags = int(sys.argv[2]); pre = eval(sys.argv[3]); w = eval(sys.argv[4]); sufs = eval(sys.argv[5])
rx = re.compile(pat, flags)
best = None
for suf in sufs:
    times = []
    for n in range(2, 40):
        s = pre + w * n + suf
        t0 = time.process_time()
        for fn in (rx.match, rx.search):
            fn(s)
        dt = time.process_time() - t0
        times.append((n, len(s), dt))
        if dt > 1.5:
            break
    if best is None or times[-1][2] > best[-1][2]:
        best = times
print(json.dumps(best))
"""


def confirm(pattern: t.Any, flags: int, g: t.Dict[str, t.Any], piv: int, word: t.List[int]) -> t.Dict[str, t.Any]:
    is_bytes = isinstance(pattern, bytes)
    mk = (lambda cs: bytes(g["reps"][c] for c in cs)) if is_bytes else (lambda cs: "".join(chr(g["reps"][c]) for c in cs))
    pre = prefix_to(g, piv)
    if pre is None:
        return {"confirmed": False, "why": "pivot not reachable from the start state"}
    sufs = [mk([])] + [(bytes([x]) if is_bytes else chr(x)) for x in (0, 33, 39, 40, 92, 0x7F)]
    try:
        p = subprocess.run([sys.executable, "-c", PUMP, repr(pattern), str(int(flags) & ~int(re.UNICODE) if not is_bytes else int(flags)), repr(mk(pre)), repr(mk(word)), repr(sufs)],
                           stdout=subprocess.PIPE, stderr=subprocess.PIPE, timeout=120)
        times = json.loads(p.stdout.decode() or "null")
    except (subprocess.TimeoutExpired, ValueError):
        return {"confirmed": True, "why": "pumping did not finish within 120 s", "prefix": repr(mk(pre)), "pump": repr(mk(word))}
    if not times:
        raise C.MachineryError("pumping a TLC witness failed: " + p.stderr.decode()[-300:])
    # doubling: time grows by >= 1.7x per pump for >= 5 consecutive pumps and exceeds 0.5 s below 400 characters
    run = best = 0
    for (n0, l0, t0), (n1, l1, t1) in zip(times, times[1:]):
        if t0 > 0.002 and t1 / t0 >= 1.7:
            run += 1
            best = max(best, run)
        else:
            run = 0
    slow = [x for x in times if x[2] > 0.5 and x[1] < 400]
    return {"confirmed": best >= 5 and bool(slow), "doubling_run": best, "times": times[-6:], "prefix": repr(mk(pre)), "pump": repr(mk(word)),
            "example": repr(mk(pre) + mk(word) * (slow[0][0] if slow else times[-1][0]))}


def analyse_patterns(rep: C.Report, wd: str) -> None:
    pats = capture_patterns()
    if len(pats) < 4:
        raise C.MachineryError(f"only {len(pats)} patterns captured from the library")
    jobs, graphs = [], []
    for k, (pat, fl, where) in enumerate(pats):
        try:
            g = convert(pat, fl)
        except Unsupported as ex:
            raise C.MachineryError(f"pattern at {where} uses a construct the NFA extraction does not support ({ex}); the check fails closed") from ex
        name = f"Eda{k}"
        write_module(g, name, wd)
        graphs.append(g)
        jobs.append(dict(module="RegexEDA", cfg="RegexEDA.cfg", wd=wd, workers=2, expect_ok=False, spec_dir=os.path.join(wd, name), tag=name, timeout=600, heap="4g"))
    res = C.run_tlc_parallel(jobs, max_par=8)
    summary = []
    for (pat, fl, where), g, r in zip(pats, graphs, res):
        ptxt = (pat if isinstance(pat, str) else pat.decode("latin-1"))
        short = re.sub(r"\s+", " ", ptxt)[:70]
        rep.add_tlc(f"RegexEDA on pattern at {where} ({len(g['anchors'])} anchors, {len(g['reps'])} classes, {len(g['edges'])} edges)", r, exhaustive=True)
        rep.case(("pattern", where, ptxt))
        rep.traces += 1
        w = witness_from(r.out)
        item: t.Dict[str, t.Any] = {"where": where, "pattern": short, "anchors": len(g["anchors"]), "edges": len(g["edges"]), "eda": bool(w)}
        if w is None:
            if not r.completed:
                raise C.MachineryError(f"TLC did not complete on the pattern at {where}:\n" + "\n".join(r.out.splitlines()[-15:]))
        else:
            c = confirm(pat, fl, g, w[0], w[1])
            item["confirmation"] = c
            if c.get("confirmed"):
                rep.violation(f"regex-exponential/{where.split(':')[0]}/{short[:40]}",
                              f"the pattern compiled at {where} has exponential degree of ambiguity (TLC witness: pivot {w[0]}, pump {c.get('pump')}); confirmed: matching time doubles per repetition "
                              f"({c.get('times')})", {"pattern": ptxt, "flags": fl, "where": where, **c})
        summary.append(item)
    rep.extra["patterns"] = summary
    rep.extra["unconfirmed_witnesses"] = [s for s in summary if s["eda"] and not s.get("confirmation", {}).get("confirmed")]
    rep.sample({"patterns_analysed": [s["where"] + " " + s["pattern"] for s in summary]})


# ------------------------------------------------------------------------------------------------------------------
# cost of the hand-written scanners and of receive()
# ------------------------------------------------------------------------------------------------------------------
COUNT = r"""
import sys, json, time
sys.setrecursionlimit(1000)
src = sys.argv[1]
sys.path.insert(0, src)
import sansldap, sansldap.schema as S
import sansldap._messages as M
spec = json.loads(sys.stdin.read())
def run(kind, text):
    if kind == "filter":
        try: sansldap.LDAPFilter.from_string(text)
        except ValueError: pass
    elif kind in ("oc", "at", "dcr"):
        cls = {"oc": S.ObjectClassDescription, "at": S.AttributeTypeDescription, "dcr": S.DITContentRuleDescription}[kind]
        try: cls.from_string(text)
        except ValueError: pass
    elif kind == "recv-bytewise":
        s = sansldap.LDAPServer(); data = bytes.fromhex(text)
        try:
            for i in range(len(data)): s.receive(data[i:i+1])
        except sansldap.ProtocolError: pass
    elif kind == "recv":
        s = sansldap.LDAPServer()
        try: s.receive(bytes.fromhex(text))
        except sansldap.ProtocolError: pass
for kind, text in spec:
    cnt = [0]
    def tr(frame, event, arg):
        if "sansldap" in frame.f_code.co_filename:
            def local(frame, event, arg):
                if event == "line": cnt[0] += 1
                return local
            cnt[0] += 1
            return local
        return None
    t0 = time.process_time()
    sys.settrace(tr)
    mem = 0
    try:
        run(kind, text)
    except MemoryError:
        mem = 1
    finally:
        sys.settrace(None)
    print(cnt[0], int((time.process_time() - t0) * 1000), mem, flush=True)
    if mem:
        break
"""


def _tlv(tag: int, content: bytes) -> bytes:
    n = len(content)
    if n < 128:
        l = bytes([n])
    else:
        b = n.to_bytes((n.bit_length() + 7) // 8, "big")
        l = bytes([0x80 | len(b)]) + b
    return bytes([tag]) + l + content


def _search_pdu(flt: bytes, mid: int = 1) -> bytes:
    body = _tlv(4, b"") + _tlv(10, b"\x00") + _tlv(10, b"\x00") + _tlv(2, b"\x00") + _tlv(2, b"\x00") + _tlv(1, b"\x00") + flt + _tlv(0x30, b"")
    return _tlv(0x30, _tlv(2, bytes([mid])) + _tlv(0x63, body))


def families() -> t.List[t.Tuple[str, str, str, t.Callable[[int], str], t.List[int]]]:
    """(name, kind, growth 'size'|'depth', generator, parameters)."""
    sizes = [16, 32, 64, 128, 256]
    depths = list(range(4, 31))   # an error path that doubles a string per level only shows beyond 20 levels
    F: t.List[t.Tuple[str, str, str, t.Callable[[int], str], t.List[int]]] = [
        ("filter many siblings", "filter", "size", lambda n: "(&" + "(a=b)" * n + ")", sizes),
        ("filter long value", "filter", "size", lambda n: "(a=" + "x" * n + ")", sizes),
        ("filter many escapes", "filter", "size", lambda n: "(a=" + "\\41" * n + ")", sizes),
        ("filter many stars", "filter", "size", lambda n: "(a=" + "x*" * n + "y)", sizes),
        ("filter long space runs", "filter", "size", lambda n: "(&" + " " * n + "(a=b)" + " " * n + ")", sizes),
        ("filter unbalanced open", "filter", "size", lambda n: "(&" + "(a=b)" * n, sizes),
        ("filter long attribute", "filter", "size", lambda n: "(" + "a" * n + ";" + "b" * n + "=c)", sizes),
        ("filter long oid", "filter", "size", lambda n: "(" + ".".join(["1"] * n) + "=c)", sizes),
        ("filter nested not, valid", "filter", "depth", lambda d: "(!" * d + "(a=b)" + ")" * d, depths),
        ("filter nested not, bad leaf", "filter", "depth", lambda d: "(!" * d + "(1a=b)" + ")" * d, depths),
        ("filter nested and, bad leaf", "filter", "depth", lambda d: "(&(a=b)" * d + "(=b)" + ")" * d, depths),
        ("filter nested or, unclosed", "filter", "depth", lambda d: "(|" * d + "(a=b)", depths),
        ("filter nested, missing paren", "filter", "depth", lambda d: "(&" * d + "(a=b)" + ")" * (d - 1), depths),
        ("filter nested and, sibling after, bad escape leaf", "filter", "depth", lambda d: "(&" * d + "(cn=bad\\zz)" + "(sn=x))" * d, depths),
        ("filter nested not inside and, sibling after, bad leaf", "filter", "depth", lambda d: "(&(!" * d + "(=b)" + ")(a=b))" * d, depths[:14]),
        ("filter nested and, two children per level, valid", "filter", "depth", lambda d: "(&(a=b)" * d + "(c=d)" + ")" * d, depths),
        ("filter nested or, sibling after, valid", "filter", "depth", lambda d: "(|" * d + "(c=d)" + "(a=b))" * d, depths),
        ("oc many extensions", "oc", "size", lambda n: "( 1.2" + " X-a 'v'" * n + " )", sizes),
        ("oc many extension values", "oc", "size", lambda n: "( 1.2 X-a (" + " 'v'" * n + " ) )", sizes),
        ("oc long description", "oc", "size", lambda n: "( 1.2 DESC '" + "x" * n + "' )", sizes),
        ("oc unterminated description", "oc", "size", lambda n: "( 1.2 DESC '" + "x" * n, sizes[:3]),
        ("oc many names", "oc", "size", lambda n: "( 1.2 NAME (" + " 'a'" * n + " ) )", sizes),
        ("oc many oids", "oc", "size", lambda n: "( 1.2 MUST ( a" + " $ a" * n + " ) )", sizes),
        ("oc long space runs", "oc", "size", lambda n: "(" + " " * n + "1.2" + " " * n + "NAME" + " " * n + "'a'" + " " * n + ")", sizes),
        ("oc empty lists then garbage", "oc", "depth", lambda d: "( 1.2" + " X-a ( )" * d + " !", depths),
        ("at many extensions then garbage", "at", "size", lambda n: "( 1.2 SYNTAX 1.2" + " X-a 'v'" * n + " !", sizes),
        ("dcr escapes", "dcr", "size", lambda n: "( 1.2 DESC '" + "\\27\\5c" * n + "' )", sizes),
        ("receive many tiny PDUs", "recv", "size", lambda n: (_tlv(0x30, _tlv(2, b"\x01") + _tlv(0x77, _tlv(0x80, b"1.2"))) * n).hex(), sizes),
        ("receive one large PDU octet by octet", "recv-bytewise", "size", lambda n: _tlv(0x30, _tlv(2, b"\x01") + _tlv(0x77, _tlv(0x80, b"1.2") + _tlv(0x81, b"x" * (4 * n)))).hex(), sizes),
        ("receive nested not filters", "recv", "depth", lambda d: _search_pdu((lambda f: [f := _tlv(0xA2, f) for _ in range(d)][-1])(_tlv(0x87, b"cn"))).hex(), depths),
        ("receive nested bad filter", "recv", "depth", lambda d: _search_pdu((lambda f: [f := _tlv(0xA2, f) for _ in range(d)][-1])(_tlv(0x9F, b"cn"))).hex(), depths),
        ("receive nested not filters, invalid UTF-8 leaf", "recv", "depth", lambda d: _search_pdu((lambda f: [f := _tlv(0xA2, f) for _ in range(d)][-1])(_tlv(0x87, b"\xff\xfe"))).hex(), depths),
        ("receive nested and filters, wrong-tag leaf", "recv", "depth", lambda d: _search_pdu((lambda f: [f := _tlv(0xA0, f) for _ in range(d)][-1])(_tlv(0xA3, _tlv(0x02, b"\x01") + _tlv(0x04, b"v")))).hex(), depths),
        ("receive nested or filters, truncated leaf", "recv", "depth", lambda d: _search_pdu((lambda f: [f := _tlv(0xA1, f) for _ in range(d)][-1])(_tlv(0xA3, _tlv(0x04, b"cn")))).hex(), depths),
        ("receive nested and filters, two children per level, valid", "recv", "depth",
         lambda d: _search_pdu((lambda f: [f := _tlv(0xA0, _tlv(0x87, b"cn") + f) for _ in range(d)][-1])(_tlv(0x87, b"sn"))).hex(), depths),
        ("receive nested or filters, nested child first, valid", "recv", "depth",
         lambda d: _search_pdu((lambda f: [f := _tlv(0xA1, f + _tlv(0x87, b"cn")) for _ in range(d)][-1])(_tlv(0x87, b"sn"))).hex(), depths),
        ("receive nested unknown trailing element", "recv", "depth",
         lambda d: _tlv(0x30, _tlv(2, b"\x01") + _tlv(0x77, _tlv(0x80, b"1.2") + (lambda f: [f := _tlv(0xA5, f) for _ in range(d)][-1])(b""))).hex(), depths),
        ("receive nested unknown element after the operation", "recv", "depth",
         lambda d: _tlv(0x30, _tlv(2, b"\x01") + _tlv(0x77, _tlv(0x80, b"1.2")) + (lambda f: [f := _tlv(0xA5, f) for _ in range(d)][-1])(b"")).hex(), depths),
        ("receive repeated controls elements", "recv", "size",
         lambda n: _tlv(0x30, _tlv(2, b"\x01") + _tlv(0x77, _tlv(0x80, b"1.2")) + _tlv(0xA0, _tlv(0x30, _tlv(4, b"1.2"))) * n).hex(), sizes),
        ("receive many controls", "recv", "size", lambda n: _tlv(0x30, _tlv(2, b"\x01") + _tlv(0x42, b"") + _tlv(0xA0, _tlv(0x30, _tlv(4, b"1.2")) * n)).hex(), sizes),
    ]
    return F


def measure_families(rep: C.Report) -> None:
    import math

    fams = families()
    src = os.path.join(C.REPO, "src")
    from concurrent.futures import ThreadPoolExecutor

    def one(fam: t.Any) -> t.Tuple[t.List[t.Tuple[int, int]], str]:
        name, kind, growth, gen, params = fam
        spec = [(kind, gen(prm)) for prm in params]
        # the budget is 40 s of CPU time of the measuring process (RLIMIT_CPU), not wall time: a loaded machine must not
        # turn into a verdict; the wall limit only guards the harness
        def limit() -> None:
            import resource

            resource.setrlimit(resource.RLIMIT_CPU, (40, 45))
            resource.setrlimit(resource.RLIMIT_AS, (3 << 30, 3 << 30))  # a blow-up of memory must not take the machine down

        pr = subprocess.Popen([sys.executable, "-c", COUNT, src], stdin=subprocess.PIPE, stdout=subprocess.PIPE, stderr=subprocess.PIPE, preexec_fn=limit)
        try:
            out, err = pr.communicate(json.dumps(spec).encode(), timeout=900)
        except subprocess.TimeoutExpired as ex:
            pr.kill()
            pr.communicate()
            raise C.MachineryError(f"cost measurement of '{name}' used less than 40 s of CPU in 900 s of wall time: the machine is overloaded") from ex
        timed_out = pr.returncode in (-24, -9)  # SIGXCPU (soft limit) / SIGKILL (hard limit)
        rows = [ln.split() for ln in out.decode().splitlines() if ln.strip()]
        vals = [(int(r[0]), int(r[1])) for r in rows if len(r) == 3]
        out_of_memory = any(r[2] == "1" for r in rows if len(r) == 3) or (pr.returncode not in (0, -24, -9) and b"MemoryError" in err)
        if out_of_memory:
            vals = vals[:-1] if vals and any(r[2] == "1" for r in rows if len(r) == 3) else vals
            return vals, "memory"
        if not timed_out and len(vals) != len(params):
            raise C.MachineryError(f"cost measurement of '{name}' failed: " + err.decode()[-300:])
        return vals, "cpu" if timed_out else ""

    with ThreadPoolExecutor(max_workers=8) as ex:
        measured = list(ex.map(one, fams))
    index = []
    counts = []
    cpu_ms: t.Dict[t.Tuple[str, int], int] = {}
    for fam, (vals, stopped) in zip(fams, measured):
        name, kind, growth, gen, params = fam
        for prm, v in zip(params, vals):
            index.append((name, prm))
            counts.append(v[0])
            cpu_ms[(name, prm)] = v[1]
        if stopped:
            prm = params[len(vals)] if len(vals) < len(params) else params[-1]
            what = "did not finish within 40 s of CPU time" if stopped == "cpu" else "exhausted 3 GB of memory"
            rep.violation(f"scanner-cost/{'did-not-finish' if stopped == 'cpu' else 'out-of-memory'}/{name}", f"'{name}' at parameter {prm} ({len(gen(prm))} characters) {what} (smaller inputs: {list(zip(params, vals))})",
                          {"family": name, "parameter": prm, "input": gen(prm)[:400]})
    by: t.Dict[str, t.List[t.Tuple[int, int]]] = {}
    for (name, prm), c in zip(index, counts):
        by.setdefault(name, []).append((prm, c))
    table = []
    for name, kind, growth, gen, params in fams:
        pts = by.get(name, [])
        rep.case(("family", name))
        rep.traces += len(pts)
        row: t.Dict[str, t.Any] = {"family": name, "growth": growth, "points": pts}
        if growth == "size":
            exps = [math.log(max(c1, 1) / max(c0, 1)) / math.log(n1 / n0) for (n0, c0), (n1, c1) in zip(pts, pts[1:]) if c0 > 50]
            row["degree"] = round(max(exps[-2:]) if exps else 0.0, 2)
            if exps and min(exps[-2:]) > 3.2:
                rep.violation(f"scanner-cost/superpolynomial/{name}", f"cost of '{name}' grows with exponent {row['degree']} between the largest sizes ({pts})", row)
        else:
            ratios = [c1 / max(c0, 1) for (d0, c0), (d1, c1) in zip(pts, pts[1:]) if c0 > 50]
            run = best = 0
            for r in ratios:
                run = run + 1 if r >= 1.6 else 0
                best = max(best, run)
            row["max_consecutive_ratio_ge_1.6"] = best
            row["last_ratio"] = round(ratios[-1], 2) if ratios else 0
            if best >= 5:
                rep.violation(f"scanner-cost/exponential/{name}", f"cost of '{name}' multiplies by >= 1.6 per added nesting level for {best} consecutive levels ({pts})", row)
            # the same test on CPU time (work done inside C code - regular expressions, repr, string building - produces no
            # line events); only levels that already cost 30 ms count, so that noise cannot add up to five doublings
            tpts = [(d, cpu_ms.get((name, d), 0)) for d, _c in pts]
            tr_ = [t1 / max(t0_, 1) for (_d0, t0_), (_d1, t1) in zip(tpts, tpts[1:]) if t0_ >= 30]
            run = bestt = 0
            for r in tr_:
                run = run + 1 if r >= 1.6 else 0
                bestt = max(bestt, run)
            row["cpu_ms"] = tpts
            if bestt >= 5:
                rep.violation(f"scanner-cost/exponential-time/{name}", f"CPU time of '{name}' multiplies by >= 1.6 per added nesting level for {bestt} consecutive levels ({tpts})", row)
        table.append(row)
    rep.extra["scanner_families"] = table
    rep.add_part("measured: Python line events inside sansldap for generated input families (not model checking)", families=len(fams), inputs=len(counts))


def run(tier: str, seed: int) -> int:
    rep = C.Report("C18", tier, seed)
    wd = C.workdir("C18")
    try:
        analyse_patterns(rep, wd)
        C.use_repo()
        measure_families(rep)
        rep.rule = ("one case per regular expression the library compiles (captured from the live library), model-checked for exponential ambiguity over all pivot states; "
                    "one case per generated input family for the hand-written scanners and receive(), measured at 5 sizes / 11 depths; distinct by pattern / family")
        rep.assumptions = ["D10: a regex violation is reported only when a TLC witness is confirmed by measurement; timing is never used for the absence claim",
                           "no EDA in the untrimmed NFA implies polynomially many partial paths; CPython's sre explores a subset of them",
                           "scanner cost is the number of Python line events inside sansldap (deterministic); polynomial degree threshold 3.2"]
        return rep.finish()
    finally:
        C.cleanup(wd)
