from .codec import run_c04 as run  # noqa: F401
