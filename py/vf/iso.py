"""C19: sessions are isolated; custom types take effect per session only.

TLC model-checks spec/Isolation.tla (two Session instances + registries: Independence, refinement of the single-session
specification, registry rules) and enumerates every interleaving of two session programs (spec/IsoSched.tla).  The
replay runs pairs of seeded session programs - walks through the Session.tla graph decorated with register_* calls and
with deliveries that carry custom control / filter / credential types - on real sessions, once each alone and once per
TLC-enumerated interleaving, and compares the complete transcripts (returns, exception classes, states, drained
octets).  Every step is also compared with the model (Session edge; registry semantics: typed / generic / ProtocolError,
duplicate registration -> ValueError).
"""
from __future__ import annotations

import collections
import dataclasses
import json
import os
import random
import struct
import typing as t

from . import common as C
from . import msggen, proj, sess

_CUSTOM: t.Dict[str, t.Any] = {}


def custom() -> t.Dict[str, t.Any]:
    if _CUSTOM:
        return _CUSTOM
    import sansldap as s
    from sansldap.asn1 import ASN1Tag, TagClass

    @dataclasses.dataclass(frozen=True)
    class CustomAuth(s.AuthenticationCredential):
        auth_id: int = dataclasses.field(init=False, repr=False, default=1024)
        username: str
        password: str

        def pack(self, writer: t.Any, options: t.Any) -> None:
            writer.write_octet_string(f"{self.username}:{self.password}".encode(options.string_encoding),
                                      tag=ASN1Tag(TagClass.CONTEXT_SPECIFIC, self.auth_id, False))

        @classmethod
        def unpack(cls, reader: t.Any, options: t.Any) -> "CustomAuth":
            value = reader.read_octet_string(tag=ASN1Tag(TagClass.CONTEXT_SPECIFIC, cls.auth_id, False), hint="CustomAuth.value").decode(options.string_encoding)
            u, _, p = value.partition(":")
            return CustomAuth(username=u, password=p)

    @dataclasses.dataclass(frozen=True)
    class CustomControl(s.LDAPControl):
        control_type: str = dataclasses.field(init=False, repr=False, default="1.2.3.4")
        value: t.Optional[bytes] = dataclasses.field(init=False, repr=False, default=None)
        size: int

        def get_value(self, options: t.Any) -> t.Optional[bytes]:
            return self.size.to_bytes(4, byteorder="big")

        @classmethod
        def unpack(cls, control_type: str, critical: bool, value: t.Optional[bytes], options: t.Any) -> "CustomControl":
            return CustomControl(critical=critical, size=struct.unpack(">I", (value or b""))[0])

    @dataclasses.dataclass(frozen=True)
    class CustomFilter(s.LDAPFilter):
        filter_id: int = dataclasses.field(init=False, repr=False, default=1024)
        value: str

        def pack(self, writer: t.Any, options: t.Any) -> None:
            writer.write_octet_string(self.value.encode(options.string_encoding), tag=ASN1Tag(TagClass.CONTEXT_SPECIFIC, self.filter_id, False))

        @classmethod
        def unpack(cls, reader: t.Any, options: t.Any) -> "CustomFilter":
            return CustomFilter(value=reader.read_octet_string(ASN1Tag(TagClass.CONTEXT_SPECIFIC, cls.filter_id, False)).decode("utf-8"))

    @dataclasses.dataclass(frozen=True)
    class CustomAuth2(CustomAuth):
        auth_id: int = dataclasses.field(init=False, repr=False, default=2)

        @classmethod
        def unpack(cls, reader: t.Any, options: t.Any) -> "CustomAuth2":
            value = reader.read_octet_string(tag=ASN1Tag(TagClass.CONTEXT_SPECIFIC, cls.auth_id, False), hint="CustomAuth2.value").decode(options.string_encoding)
            u, _, p = value.partition(":")
            return CustomAuth2(username=u, password=p)

    @dataclasses.dataclass(frozen=True)
    class CustomControl2(CustomControl):
        control_type: str = dataclasses.field(init=False, repr=False, default="1.2.3.5")

        @classmethod
        def unpack(cls, control_type: str, critical: bool, value: t.Optional[bytes], options: t.Any) -> "CustomControl2":
            return CustomControl2(critical=critical, size=struct.unpack(">I", (value or b""))[0])

    @dataclasses.dataclass(frozen=True)
    class CustomFilter2(CustomFilter):
        filter_id: int = dataclasses.field(init=False, repr=False, default=1025)

        @classmethod
        def unpack(cls, reader: t.Any, options: t.Any) -> "CustomFilter2":
            return CustomFilter2(value=reader.read_octet_string(ASN1Tag(TagClass.CONTEXT_SPECIFIC, cls.filter_id, False)).decode("utf-8"))

    _CUSTOM.update(control=CustomControl, filter=CustomFilter, cred=CustomAuth, control2=CustomControl2, filter2=CustomFilter2, cred2=CustomAuth2)
    return _CUSTOM


def custom_unit(role: str, typ: str, mid: int, rnd: random.Random) -> t.Tuple[bytes, str, t.Any]:
    """A message from the peer that carries custom type typ: (octets, abstract kind, the custom object)."""
    import sansldap as s
    import sansldap._messages as M

    cc = custom()
    opts = M.PackingOptions()
    variant = "2" if typ.endswith("2") else ""
    typ = typ.rstrip("2")
    if typ == "known":
        # a library-known control without value (Show Deleted / Show Deactivated Link), sent by a peer with or without a value
        oid = rnd.choice((proj.SHOW_DELETED_OID, proj.SHOW_DEACT_OID))
        gen = s.LDAPControl(oid, rnd.random() < 0.5, rnd.choice((None, None, b"", b"peer-value-" + bytes([rnd.randrange(65, 91)]))))
        if role == "server":
            m0: t.Any = M.ExtendedRequest(mid, [gen], msggen.r_oid(rnd), None)
            return m0.pack(opts), "extReq", gen
        m0 = M.ExtendedResponse(mid, [gen], M.LDAPResult(M.LDAPResultCode(0), "", "", None), None, None)
        return m0.pack(opts), "extResp", gen
    if typ == "control":
        obj = cc["control" + variant](critical=rnd.random() < 0.5, size=rnd.randrange(2**32))
        if role == "server":
            m: t.Any = M.ExtendedRequest(mid, [obj], msggen.r_oid(rnd), None)
            return m.pack(opts), "extReq", obj
        m = M.ExtendedResponse(mid, [obj], M.LDAPResult(M.LDAPResultCode(0), "", "", None), None, None)
        return m.pack(opts), "extResp", obj
    if typ == "filter":
        obj = cc["filter" + variant](value=msggen.r_text(rnd))
        flt = obj if rnd.random() < 0.5 else s.FilterAnd([s.FilterPresent("cn"), s.FilterNot(obj)])
        m = M.SearchRequest(mid, [], "", M.SearchScope.BASE, M.DereferencingPolicy.NEVER, 0, 0, False, flt, [])
        return m.pack(opts), "searchReq", obj
    obj = cc["cred" + variant](username="u" + str(rnd.randrange(100)), password=msggen.r_text(rnd).replace(":", ""))
    m = M.BindRequest(mid, [], 3, "", obj)
    return m.pack(opts), "bindReq", obj


def find_custom(msg: t.Any) -> t.Any:
    """The (possibly generic) object at the place where the custom one was put."""
    import sansldap as s

    if getattr(msg, "controls", None):
        return msg.controls[0]
    if isinstance(msg, s.SearchRequest):
        f = msg.filter
        if isinstance(f, s.FilterAnd):
            f = f.filters[1].filter
        return f
    if isinstance(msg, s.BindRequest):
        return msg.authentication
    return None


# ------------------------------------------------------------------------------------------------------------------
def make_program(role: str, bysrc: t.Dict[str, t.List[t.Any]], length: int, rnd: random.Random, force_badsend: t.Optional[int] = None) -> t.List[t.Dict[str, t.Any]]:
    """A walk through the Session graph of `role`, decorated with registry operations and custom-type deliveries."""
    k = sess.skey({"st": "BEFORE_OPEN", "out": [], "srch": [], "ctr": 1})
    reg: t.Set[str] = set()
    prog: t.List[t.Dict[str, t.Any]] = []
    types = ("control", "filter", "cred") if role == "server" else ("control",)
    while len(prog) < length:
        es = bysrc.get(k)
        if not es:
            break
        u = rnd.random()
        src = es[0]["src"]
        if force_badsend is not None and src["st"] == "OPENED" and not any(st["t"] == "badsend" for st in prog):
            prog.append({"t": "badsend", "id": rnd.choice(src["out"]) if src["out"] else 1, "variant": force_badsend})
            continue
        if force_badsend is not None and src["st"] == "BEFORE_OPEN":
            u = 0.9   # get the session opened first
        if u < 0.18:
            typ = rnd.choice(("control", "filter", "cred")) + rnd.choice(("", "", "2"))
            prog.append({"t": "register", "type": typ, "expect": "ValueError" if typ in reg else "ok"})
            reg.add(typ)
            continue
        if 0.52 <= u < 0.62:
            # a message with library controls packed next to the session (a relay building the message it will forward): no
            # effect on any session, but its octets show whatever a failed encoding elsewhere left in shared library state
            prog.append({"t": "pagedpack"})
            continue
        if 0.45 <= u < 0.52 and src["st"] == "OPENED":
            # a send call whose argument cannot be encoded (D6: outside C10's quantifier, the session's protocol state is
            # OPENED before and after): whatever the failed encoding leaves behind must stay inside this session
            prog.append({"t": "badsend", "id": rnd.choice(src["out"]) if src["out"] else 1})
            continue
        if u < 0.45 and src["st"] != "CLOSED":
            typ = rnd.choice(types) + rnd.choice(("", "", "2"))
            if rnd.random() < 0.2:
                typ = "known"
            outcome = "known" if typ == "known" else "typed" if typ in reg else "generic" if typ.startswith("control") else "ProtocolError"
            if role == "client":
                ids = src["out"]
                if not ids:
                    outcome = None
                else:
                    mid = rnd.choice(ids)
                    kind = "extResp"
            else:
                mid = rnd.choice((1, 2, 3))
                kind = {"control": "extReq", "filter": "searchReq", "cred": "bindReq", "known": "extReq"}[typ.rstrip("2")]
            if outcome is not None:
                want = [{"k": "garbage", "id": 0}] if outcome == "ProtocolError" else [{"k": kind, "id": mid}]
                edge = next((e for e in es if e["call"]["op"] == "recv" and e["call"]["ms"] == want), None)
                if edge is not None:
                    if edge["call"]["res"] != "ok":
                        outcome = "ProtocolError"    # the state machine rejects the unit whatever it carries (e.g. bind with operations outstanding)
                    prog.append({"t": "custom", "type": typ, "id": mid, "outcome": outcome, "edge": edge})
                    k = sess.skey(edge["dst"])
                    continue
        a = [e for e in es if e["dst"]["st"] != "CLOSED" and e["call"]["res"] == "ok"]
        b = [e for e in es if e["dst"]["st"] != "CLOSED" and e["call"]["res"] != "ok"]
        c = [e for e in es if e["dst"]["st"] == "CLOSED"]
        v = rnd.random()
        pool = a if (v < 0.65 and a) else b if (v < 0.85 and b) else c if c else (a or b)
        e = rnd.choice(pool)
        if (e["call"]["op"] == "recv" and e["call"]["res"] == "ok" and len(e["call"]["ms"]) == 1 and e["call"]["ms"][0]["k"] != "garbage"
                and len(prog) + 2 <= length and rnd.random() < 0.4):
            # the delivery arrives in two pieces that are two program steps: steps of the other session can come in between,
            # while this session holds the head of an incomplete unit
            prog.append({"t": "head", "edge": e, "of": len(prog) + 1})
        prog.append({"t": "edge", "edge": e})
        k = sess.skey(e["dst"])
    return prog


def _bad_control() -> t.Any:
    import sansldap

    return sansldap.LDAPControl("1.2.\ud800", False, None)


def library_probe() -> str:
    """Octets of a fixed message with library controls, packed next to the sessions (state-neutral).  Part of every
    transcript entry: whatever an earlier step of ANY session left in process-wide library state (a pooled writer, a shared
    control instance, a module-level cache) shows here, at the very next step."""
    import sansldap
    import sansldap._messages as M

    try:
        return M.SearchResultDone(9, [sansldap.PagedResultControl(True, 7, b"ck"), sansldap.ShowDeletedControl(False), sansldap.LDAPControl("1.2.3", True, b"v")],
                                  M.LDAPResult(M.LDAPResultCode(0), "", "", None)).pack(M.PackingOptions()).hex()
    except Exception as ex:  # noqa: BLE001
        return type(ex).__name__


def run_step(s: t.Any, role: str, step: t.Dict[str, t.Any], seed: str) -> t.Tuple[t.Any, t.List[t.Tuple[str, str, str]]]:
    entry, diffs = _run_step(s, role, step, seed)
    # not right after a failing send of the same session: what it left behind must be seen by whoever comes next
    return tuple(entry) + ("" if step["t"] == "badsend" else library_probe(),), diffs


def _run_step(s: t.Any, role: str, step: t.Dict[str, t.Any], seed: str) -> t.Tuple[t.Any, t.List[t.Tuple[str, str, str]]]:
    """Execute one program step; returns (transcript entry, differences against the model)."""
    rnd = random.Random(seed)
    diffs: t.List[t.Tuple[str, str, str]] = []
    if step["t"] == "register":
        cls = custom()[step["type"]]
        fn = {"control": s.register_control, "filter": s.register_filter, "cred": s.register_auth_credential}[step["type"].rstrip("2")]
        try:
            fn(cls)
            res = "ok"
        except Exception as ex:  # noqa: BLE001
            res = type(ex).__name__
        if res != step["expect"]:
            diffs.append(("C19", f"register/{step['type']}/{step['expect']}->{res}", f"register_{step['type']}: expected {step['expect']}, got {res}"))
        return ("register", step["type"], res, s.state.name), diffs
    if step["t"] == "head":
        # first piece of the delivery that the next step ("of") completes: same seed, hence the same octets
        data, _ = sess.encode_units(step["edge"]["call"]["ms"], random.Random(f"{seed.rsplit(':', 1)[0]}:{step['of']}"))
        cut = 1 + random.Random(seed).randrange(len(data) - 1)
        try:
            got = s.receive(data[:cut])
            res = f"ok:{len(got)}"
        except Exception as ex:  # noqa: BLE001
            res = type(ex).__name__
        s._vf_headcut = cut
        return ("head", res, s.state.name), diffs
    if step["t"] == "pagedpack":
        import sansldap
        import sansldap._messages as M

        try:
            hexed = M.SearchResultDone(9, [sansldap.PagedResultControl(True, 7, b"ck"), sansldap.ShowDeletedControl(False)],
                                       M.LDAPResult(M.LDAPResultCode(0), "", "", None)).pack(M.PackingOptions()).hex()
        except Exception as ex:  # noqa: BLE001
            hexed = type(ex).__name__
        return ("pagedpack", hexed, s.state.name), diffs
    if step["t"] == "badsend":
        bad = "x\ud800"
        import sansldap

        v_ = step.get("variant", rnd.choice((0, 1, 2, 2)))
        try:
            if role == "client":
                if v_ == 0:
                    s.search_request(bad, attributes=["cn"])
                elif v_ == 1:
                    s.extended_request("1.2.3", None, controls=[_bad_control()])
                else:   # a library control whose own value cannot be built
                    s.extended_request("1.2.3", None, controls=[sansldap.PagedResultControl(False, 5, "not-bytes")])  # type: ignore[arg-type]
            else:
                if v_ == 0:
                    s.search_result_entry(step["id"], bad, [])
                elif v_ == 1:
                    s.search_result_done(step["id"], diagnostics_message=bad)
                else:
                    s.search_result_done(step["id"], controls=[sansldap.PagedResultControl(False, 5, "not-bytes")])  # type: ignore[arg-type]
            res = "ok"
        except Exception as ex:  # noqa: BLE001
            res = type(ex).__name__
        return ("badsend", res, s.data_to_send().hex(), s.state.name), diffs
    if step["t"] == "custom":
        data, kind, obj = custom_unit(role, step["type"], step["id"], rnd)
        res, got, exc = "ok", [], ""
        try:
            got = s.receive(data)
        except Exception as ex:  # noqa: BLE001
            res, exc = C.exc_kind(ex), str(ex)[:120]
        raw = s.data_to_send()
        outcome = step["outcome"]
        seen = "ProtocolError" if res == "ProtocolError" else res
        found = None
        if res == "ok" and len(got) == 1:
            kept(s).append((got[0], snapshot(got[0])))
        if outcome == "known":
            if res == "ok" and len(got) == 1 and got[0].controls and got[0].controls[0].control_type == obj.control_type \
                    and got[0].controls[0].critical == obj.critical and got[0].controls[0].value == obj.value:
                seen = "known"
            else:
                seen = f"known-but-different:{res}"
        elif res == "ok" and len(got) == 1:
            found = find_custom(got[0])
            if type(found) is type(obj):
                seen = "typed" if found == obj or (step["type"].startswith("control") and found.size == obj.size and found.critical == obj.critical) else "typed-but-different"
            elif step["type"].startswith("control") and type(found).__name__ == "LDAPControl":
                same = found.control_type == obj.control_type and found.critical == obj.critical and found.value == obj.get_value(None)
                seen = "generic" if same else "generic-but-different"
            else:
                seen = f"other:{type(found).__name__}"
        if seen != outcome:
            diffs.append(("C19", f"custom-{step['type']}/{role}/{outcome}->{seen}",
                          f"{role} received a unit with a {'known no-value control' if outcome == 'known' else 'custom ' + step['type']} ({'registered' if outcome == 'typed' else 'not registered'}): expected {outcome}, observed {seen} {exc}"))
        if s.state.name != step["edge"]["dst"]["st"]:
            diffs.append(("C19", f"custom-{step['type']}/{role}/state", f"state {s.state.name}, model {step['edge']['dst']['st']}"))
        return ("custom", step["type"], res, [proj.kind_of(m) for m in got], repr(found)[:80], raw.hex(), s.state.name), diffs
    e = step["edge"]
    if e["call"]["op"] == "recv" and e["call"]["res"] == "ok" and e["call"]["ms"]:
        # deliver through a wrapper that keeps the returned objects for the late check
        orig = s.receive

        cut = getattr(s, "_vf_headcut", 0)
        s._vf_headcut = 0

        def keeping(data: t.Any, _orig: t.Any = orig, _s: t.Any = s, _cut: int = cut) -> t.Any:
            got = _orig(bytes(data)[_cut:] if _cut else data)   # the head of these octets was delivered by the preceding "head" step
            for m in got:
                kept(_s).append((m, snapshot(m)))
            return got

        s.receive = keeping
        try:
            obs = sess.do_call(s, role, e["call"], rnd)
        finally:
            del s.receive
        d = sess.compare(role, e, obs)
        return ("edge", obs["res"], obs["ret"], tuple((m["k"], m["id"]) for m in obs["msgs"]), obs["raw_emit"].hex(), obs["state"]), d
    obs = sess.do_call(s, role, e["call"], rnd)
    d = sess.compare(role, e, obs)
    return ("edge", obs["res"], obs["ret"], tuple((m["k"], m["id"]) for m in obs["msgs"]), obs["raw_emit"].hex(), obs["state"]), d


def snapshot(msg: t.Any) -> str:
    """Everything a caller can read from a returned message, including the raw value of library-known controls."""
    return json.dumps([proj.to_abstract(msg), [[type(c).__name__, c.control_type, c.critical, list(c.value) if c.value is not None else None] for c in msg.controls]], sort_keys=True)


def kept(s: t.Any) -> t.List[t.Any]:
    if not hasattr(s, "_vf_kept"):
        s._vf_kept = []
    return s._vf_kept


def late_check(s: t.Any, role: str) -> t.Tuple[t.Any, t.List[t.Tuple[str, str, str]]]:
    """Messages returned earlier are self-contained values: nothing that happened since - in this or any other
    session - may have changed them."""
    diffs = []
    now = []
    for m, snap in kept(s):
        cur = snapshot(m)
        now.append(cur)
        if cur != snap:
            for prop in ("C19", "C02"):
                diffs.append((prop, f"returned-value-changed/{role}", f"a message returned earlier by a {role} session changed afterwards: {snap[:160]} -> {cur[:160]}"))
    return ("late", tuple(now)), diffs


def run_program(role: str, prog: t.List[t.Any], pid: str) -> t.Tuple[t.List[t.Any], t.List[t.Any]]:
    s = sess.new_session(role)
    tr, diffs = [], []
    for j, st in enumerate(prog):
        entry, d = run_step(s, role, st, f"{pid}:{j}")
        tr.append(entry)
        diffs += d
    entry, d = late_check(s, role)
    tr.append(entry)
    diffs += d
    return tr, diffs


def run_interleaved(ra: str, pa: t.List[t.Any], ia: str, rb: str, pb: t.List[t.Any], ib: str, sched: t.List[int]) -> t.Tuple[t.List[t.Any], t.List[t.Any]]:
    sa, sb = sess.new_session(ra), sess.new_session(rb)
    ta: t.List[t.Any] = []
    tb: t.List[t.Any] = []
    for w in sched:
        if w == 1 and len(ta) < len(pa):
            ta.append(run_step(sa, ra, pa[len(ta)], f"{ia}:{len(ta)}")[0])
        elif w == 2 and len(tb) < len(pb):
            tb.append(run_step(sb, rb, pb[len(tb)], f"{ib}:{len(tb)}")[0])
    ta.append(late_check(sa, ra)[0])
    tb.append(late_check(sb, rb)[0])
    return ta, tb


def first_diff(a: t.List[t.Any], b: t.List[t.Any]) -> int:
    for j, (x, y) in enumerate(zip(a, b)):
        if x != y:
            return j
    return min(len(a), len(b))


def run(tier: str, seed: int) -> int:
    C.use_repo()
    rep = C.Report("C19", tier, seed)
    wd = C.workdir("C19")
    rnd = random.Random(seed)
    try:
        jobs = []
        pairs = [("client", "server")] if tier == "quick" else [("client", "server"), ("server", "server"), ("client", "client")]
        for j, (r1, r2) in enumerate(pairs):
            p = os.path.join(wd, f"iso-{j}.cfg")
            with open(p, "w") as f:
                # two servers with two kinds of registration exceed an hour; the server + server instance keeps one kind
                types = '{"filter"}' if tier == "quick" or (r1, r2) == ("server", "server") else '{"control", "filter"}'
                f.write(f'CONSTANTS\n  Role1 = "{r1}"\n  Role2 = "{r2}"\n  MaxId = 1\n  MaxChunk = 1\n  Types = {types}\nSPECIFICATION Spec\nVIEW View\nCHECK_DEADLOCK FALSE\n'
                        "PROPERTY Independence\nPROPERTY RegistryMonotone\nPROPERTY DuplicateRejected\nPROPERTY S1Spec\nPROPERTY S2Spec\n")
            jobs.append(dict(module="Isolation", cfg=p, wd=wd, workers=max(2, C.NCPU // (len(pairs) + 1)), tag=f"iso{j}", timeout=3000, heap="8g"))
        jobs.append(dict(module="IsoSched", cfg="IsoSched_q.cfg" if tier == "quick" else "IsoSched_t.cfg", wd=wd, workers=1, tag="sched"))
        for role in ("client", "server"):
            p = os.path.join(wd, f"emit-{role}.cfg")
            sess.write_cfg(p, role, 2, 1, emit=True)
            jobs.append(dict(module="SessionEmit", cfg=p, wd=wd, workers=1, tag=f"em{role}"))
        res = C.run_tlc_parallel(jobs)
        for j, (r1, r2) in enumerate(pairs):
            rep.add_tlc(f"Isolation.tla {r1}+{r2}: Independence, RegistryMonotone, DuplicateRejected, S1!Spec, S2!Spec", res[j], exhaustive=True)
        scheds = res[len(pairs)].json_cases("SCHED")
        rep.add_tlc("IsoSched.tla: all interleavings of two programs", res[len(pairs)], exhaustive=True)
        graphs = {}
        for j, role in enumerate(("client", "server")):
            edges = res[len(pairs) + 1 + j].json_cases("EDGE")
            bysrc: t.Dict[str, t.List[t.Any]] = collections.OrderedDict()
            for e in edges:
                bysrc.setdefault(sess.skey(e["src"]), []).append(e)
            graphs[role] = bysrc
        plen = max(sum(1 for v in scheds[0] if v == 1), 1)
        # ---- long programs run alone: registry semantics, and drift of process-wide state over many sessions
        nlong = 300 if tier == "quick" else 4000
        long_progs = []
        for n in range(nlong):
            role = "server" if rnd.random() < 0.6 else "client"
            prog = make_program(role, graphs[role], 14, rnd)
            pid = f"{seed}-L{n}"
            tr, diffs = run_program(role, prog, pid)
            long_progs.append((role, prog, pid, tr))
            rep.case(("long", n))
            for prop, sig, text in diffs:
                rep.violation(sig, text + " [program run alone]", {"role": role, "program": [{k: v for k, v in st.items() if k != "edge"} | ({"call": st["edge"]["call"]} if "edge" in st else {}) for st in prog]}, prop=prop)
        for role, prog, pid, tr in long_progs:
            tr2, _ = run_program(role, prog, pid)
            if tr2 != tr:
                j = first_diff(tr2, tr)
                rep.violation(f"process-state-leak/{role}", f"the same {role} program gives a different transcript when run again later in the same process, after other sessions ran "
                              f"(step {j}): first {str(tr[j])[:140]}, later {str(tr2[j])[:140]}", {"role": role, "step": j})
        rep.traces += 2 * nlong
        # ---- registry churn: many short-lived sessions with different registrations, one after the other.  What a
        # session decodes depends on its own registrations only - not on those of sessions that existed before it.
        nchurn = 400 if tier == "quick" else 5000
        for n in range(nchurn):
            role = "server" if n % 3 else "client"
            typ = rnd.choice(("control", "filter", "cred")) if role == "server" else "control"
            mine, other = (("", "2") if rnd.random() < 0.5 else ("2", ""))
            sx = sess.new_session(role)
            steps: t.List[t.Dict[str, t.Any]] = []
            if role == "client":
                sx.extended_request("1.2.3")
                sx.extended_request("1.2.4")
                sx.data_to_send()
            registered = rnd.random() < 0.8
            if registered:
                steps.append({"t": "register", "type": typ + mine, "expect": "ok"})
            warm = rnd.random() < 0.5 and typ != "cred"   # decode something ordinary first (a decoder may build tables lazily); a bind needs an idle session
            order = [typ + mine, typ + other] if rnd.random() < 0.5 else [typ + other, typ + mine]
            rep.case(("churn", n))
            for st in steps:
                _, d = run_step(sx, role, st, f"{seed}-churn{n}")
                for prop, sig, text in d:
                    rep.violation(sig, text + " [registry churn]", {"n": n, "role": role}, prop=prop)
            if warm and role == "server":
                try:
                    sx.receive(custom_unit(role, "known", 30, rnd)[0])
                except Exception:  # noqa: BLE001
                    pass
            for j, tv in enumerate(order):
                if sx.state.name == "CLOSED":
                    break
                want = "typed" if (registered and tv == typ + mine) else "generic" if tv.startswith("control") else "ProtocolError"
                mid = (1 + j) if role == "client" else 10 + j
                kind = "extResp" if role == "client" else {"control": "extReq", "filter": "searchReq", "cred": "bindReq"}[typ]
                if kind == "bindReq" and j > 0:
                    break   # a second bind while the first is outstanding is a protocol error of its own
                edge = {"dst": {"st": "CLOSED" if want == "ProtocolError" else ("BINDING" if kind == "bindReq" else "OPENED")}}
                _, d = run_step(sx, role, {"t": "custom", "type": tv, "id": mid, "outcome": want, "edge": edge}, f"{seed}-churn{n}-{j}")
                for prop, sig, text in d:
                    rep.violation(sig, text + f" [registry churn: session {n} registered {typ + mine if registered else 'nothing'}]", {"n": n, "role": role, "registered": typ + mine if registered else None}, prop=prop)
        rep.traces += nchurn
        rep.add_part("spec->code: registry churn (short-lived sessions with alternating registrations; decode depends on own registrations only)", sessions=nchurn)
        rep.add_part("spec->code: long single-session programs (registry semantics per step; each program re-run after all others)", programs=nlong, length=14)
        npairs = 14 if tier == "quick" else 120
        runs = 0
        directed = [(ra_, v_) for ra_ in ("client", "server") for v_ in (0, 1, 2)]   # one program with a failing encode of each kind
        for n in range(npairs + len(directed)):
            ra, rb = rnd.choice((("client", "server"), ("server", "server"), ("client", "client"), ("server", "client")))
            forced = None
            if n >= npairs:
                ra, forced = directed[n - npairs]
            pa = make_program(ra, graphs[ra], plen, rnd, force_badsend=forced)
            pb = make_program(rb, graphs[rb], plen, rnd)
            ia, ib = f"{seed}-{n}-A", f"{seed}-{n}-B"
            ta, da = run_program(ra, pa, ia)
            tb, db = run_program(rb, pb, ib)
            for prop, sig, text in da + db:
                rep.violation(sig, text + " [program run alone]", {"program": [{k: v for k, v in st.items() if k != "edge"} | ({"call": st["edge"]["call"]} if "edge" in st else {}) for st in pa + pb]}, prop=prop)
            for sc in scheds:
                xa, xb = run_interleaved(ra, pa, ia, rb, pb, ib, sc)
                runs += 1
                rep.case((n, tuple(sc)))
                if xa != ta[: len(xa)] or len(xa) != len(ta):
                    j = first_diff(xa, ta)
                    rep.violation(f"transcript-differs/{ra}", f"a {ra} session's step {j} behaves differently when interleaved with a {rb} session: alone {str(ta[j])[:160] if j < len(ta) else None}, "
                                  f"interleaved {str(xa[j])[:160] if j < len(xa) else None}", {"schedule": sc, "roles": [ra, rb], "step": j})
                if xb != tb[: len(xb)] or len(xb) != len(tb):
                    j = first_diff(xb, tb)
                    rep.violation(f"transcript-differs/{rb}", f"a {rb} session's step {j} behaves differently when interleaved with a {ra} session: alone {str(tb[j])[:160] if j < len(tb) else None}, "
                                  f"interleaved {str(xb[j])[:160] if j < len(xb) else None}", {"schedule": sc, "roles": [ra, rb], "step": j})
            # the same programs once more, alone, at the end: the process as a whole must not have drifted
            ta2, _ = run_program(ra, pa, ia)
            if ta2 != ta:
                j = first_diff(ta2, ta)
                rep.violation(f"process-state-leak/{ra}", f"the same {ra} program gives a different transcript later in the same process (step {j}): {str(ta[j])[:120]} vs {str(ta2[j])[:120]}",
                              {"roles": [ra, rb], "step": j})
            if n < 2:
                rep.sample({"roles": [ra, rb], "program_A": [{k: v for k, v in st.items() if k != "edge"} | ({"call": st["edge"]["call"]} if "edge" in st else {}) for st in pa], "schedules": len(scheds)})
        rep.traces += runs
        rep.add_part("spec->code: pairs of session programs, alone vs every TLC-enumerated interleaving", program_pairs=npairs, schedules_per_pair=len(scheds), interleaved_runs=runs, program_length=plen)
        rep.rule = ("pairs of seeded session programs (walks through the Session.tla graph with register_* calls and deliveries carrying custom control/filter/credential types) x every "
                    "interleaving enumerated by TLC; distinct by (program pair, schedule)")
        rep.assumptions = ["encoding a custom object needs no registration (pinned by the suite)", "transcripts compare returns, exception classes, states and drained octets"]
        return rep.finish()
    finally:
        C.cleanup(wd)
