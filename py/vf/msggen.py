"""Seeded random generators of sansldap message values (drivers for the code -> spec direction).

Domain decisions: D1 (known control OIDs only through their classes), D12 (text without lone surrogates; enum-typed
fields take their members, LDAPResultCode is open ended).
"""
from __future__ import annotations

import random
import typing as t

LENS = (0, 0, 1, 1, 2, 3, 5, 8, 17, 126, 127, 128, 129, 255, 256, 257)
BIG_LENS = (65535, 65536, 70000)


def r_len(rnd: random.Random, big: bool = False) -> int:
    if big and rnd.random() < 0.02:
        return rnd.choice(BIG_LENS)
    return rnd.choice(LENS) if rnd.random() < 0.7 else rnd.randrange(0, 40)


def r_bytes(rnd: random.Random, big: bool = False) -> bytes:
    n = r_len(rnd, big)
    k = rnd.randrange(4)
    if k == 0:
        return bytes(rnd.randrange(256) for _ in range(min(n, 300))) + bytes(max(0, n - 300))
    if k == 1:
        return bytes(rnd.choice(b"()*\\\x00 =:&|!~<>\xff\x80a") for _ in range(min(n, 300))) + b"a" * max(0, n - 300)
    if k == 2:
        return b"a" * n
    return bytes(rnd.choice((0, 255, 128, 127)) for _ in range(min(n, 300))) + bytes(max(0, n - 300))


def r_char(rnd: random.Random) -> str:
    k = rnd.randrange(10)
    if k < 5:
        return chr(rnd.randrange(0x20, 0x7F))
    if k == 5:
        return chr(rnd.randrange(0x00, 0x20))
    if k == 6:
        return chr(rnd.randrange(0x80, 0x800))
    if k == 7:
        c = rnd.randrange(0x800, 0x10000)
        return chr(c) if not 0xD800 <= c <= 0xDFFF else "€"
    if k == 8:
        return chr(rnd.randrange(0x10000, 0x110000))
    if rnd.random() < 0.4:
        # text that Unicode normalisation (NFC / NFKC) would change: decomposed letters, compatibility characters,
        # conjoining jamo - a library must transport it octet for octet
        return rnd.choice(("e\u0301", "a\u0308", "\u212b", "\u2126", "\uf900", "\uff21", "\ufb01", "\u00bd", "\u1100\u1161", "\u00b2", "\u1e9b\u0323"))
    return rnd.choice("()*\\'\"$| é \U0001f600")


def r_text(rnd: random.Random, big: bool = False) -> str:
    n = r_len(rnd, big)
    if n > 300:
        return "a" * (n - 2) + "é"  # crosses the length boundary in octets
    return "".join(r_char(rnd) for _ in range(n))


def r_int(rnd: random.Random) -> int:
    k = rnd.randrange(7)
    if k == 0:
        return rnd.choice((0, 1, 2, 3, 127, 128, 255, 256, 32767, 32768, 65535, 65536, 2**31 - 1, 2**31, 2**32, 2**63, 2**64))
    if k == 1:
        return -rnd.choice((1, 128, 129, 256, 32768, 65536, 2**31, 2**63, 2**23, 16777216))
    if k == 2:
        return rnd.getrandbits(rnd.randrange(1, 130)) * rnd.choice((1, -1))
    if k == 3:
        return rnd.choice((1, -1)) * (256 ** rnd.randrange(0, 12)) * rnd.randrange(1, 4)
    return rnd.randrange(0, 1000)


def r_code(rnd: random.Random) -> int:
    return rnd.choice((0, 0, 0, 2, 14, 10, 49, 80, 9, 15, 22, 4096, 16654, 127, 128, 255, 256, 2**31 - 1, 2**31, 71, 70, 118, 123))


def r_attr(rnd: random.Random) -> str:
    k = rnd.randrange(5)
    if k <= 1:
        a = rnd.choice(("cn", "objectClass", "sn", "member;range=0-1", "userCertificate;binary", "1.2.840.113556.1.4.803", "2.5.4.3;lang-en"))
        # attribute descriptions are case insensitive on the wire: spellings that differ only in case are distinct values
        c = rnd.randrange(4)
        return a if c == 0 else a.lower() if c == 1 else a.upper() if c == 2 else "".join(rnd.choice((ch.lower(), ch.upper())) for ch in a)
    return r_text(rnd)


def r_filter(rnd: random.Random, depth: int) -> t.Any:
    import sansldap as s

    k = rnd.randrange(13 if depth > 0 else 9)
    if k == 0:
        return s.FilterPresent(r_attr(rnd))
    if k == 1:
        return s.FilterEquality(r_attr(rnd), r_bytes(rnd))
    if k == 2:
        return s.FilterGreaterOrEqual(r_attr(rnd), r_bytes(rnd))
    if k == 3:
        return s.FilterLessOrEqual(r_attr(rnd), r_bytes(rnd))
    if k == 4:
        return s.FilterApproxMatch(r_attr(rnd), r_bytes(rnd))
    if k in (5, 6):
        return s.FilterSubstrings(r_attr(rnd), r_bytes(rnd) if rnd.random() < 0.5 else None,
                                  [r_bytes(rnd) for _ in range(rnd.randrange(0, 4))], r_bytes(rnd) if rnd.random() < 0.5 else None)
    if k in (7, 8):
        return s.FilterExtensibleMatch(r_attr(rnd) if rnd.random() < 0.6 else None, r_attr(rnd) if rnd.random() < 0.6 else None,
                                       r_bytes(rnd), rnd.random() < 0.5)
    if k == 9:
        n = rnd.choice((1, 1, 2, 3, 30))
        f = r_filter(rnd, 0)
        for _ in range(n):
            f = s.FilterNot(f)
        return f
    if k in (10, 11):
        cls = s.FilterAnd if k == 10 else s.FilterOr
        return cls([r_filter(rnd, depth - 1) for _ in range(rnd.randrange(0, 4))])
    return s.FilterNot(r_filter(rnd, depth - 1))


def r_oid(rnd: random.Random) -> str:
    while True:
        o = ".".join(str(rnd.randrange(0, 5000)) for _ in range(rnd.randrange(2, 9))) if rnd.random() < 0.8 else r_text(rnd)
        if o not in ("1.2.840.113556.1.4.319", "1.2.840.113556.1.4.417", "1.2.840.113556.1.4.2065"):
            return o


def r_control(rnd: random.Random) -> t.Any:
    import sansldap as s

    k = rnd.randrange(7)
    if k == 6:   # a flag control the way another implementation may send it: with a controlValue
        return s.LDAPControl(rnd.choice(("1.2.840.113556.1.4.417", "1.2.840.113556.1.4.2065")), rnd.random() < 0.5, rnd.choice((b"", b"x", b"\x30\x00")))
    if k == 0:
        return s.PagedResultControl(critical=rnd.random() < 0.5, size=r_int(rnd), cookie=r_bytes(rnd))
    if k == 1:
        return s.ShowDeletedControl(critical=rnd.random() < 0.5)
    if k == 2:
        return s.ShowDeactivatedLinkControl(critical=rnd.random() < 0.5)
    return s.LDAPControl(r_oid(rnd), rnd.random() < 0.5, r_bytes(rnd) if rnd.random() < 0.6 else None)


def r_controls(rnd: random.Random) -> t.List[t.Any]:
    if rnd.random() < 0.6:
        return []
    return [r_control(rnd) for _ in range(rnd.choice((1, 1, 2, 3, 5)))]


def r_result(rnd: random.Random) -> t.Any:
    import sansldap as s

    refs: t.Optional[t.List[str]]
    k = rnd.randrange(4)
    refs = None if k == 0 else [] if k == 1 else [r_text(rnd) for _ in range(rnd.randrange(1, 4))]
    try:
        code = s.LDAPResultCode(r_code(rnd))
    except Exception:  # noqa: BLE001  the generator of peer messages must not depend on how the tree treats unnamed codes
        code = s.LDAPResultCode(80)
    return s.LDAPResult(code, r_text(rnd, True), r_text(rnd), refs)


def r_opt_bytes(rnd: random.Random, big: bool = False) -> t.Optional[bytes]:
    return None if rnd.random() < 0.3 else r_bytes(rnd, big)


def r_message(rnd: random.Random, kinds: t.Optional[t.Sequence[str]] = None, mid: t.Optional[int] = None) -> t.Any:
    import sansldap as s

    kind = rnd.choice(kinds or ("bindReq", "bindResp", "unbind", "searchReq", "entry", "done", "ref", "extReq", "extResp"))
    i = r_int(rnd) if mid is None else mid
    c = r_controls(rnd)
    if kind == "bindReq":
        auth = s.SimpleCredential(r_text(rnd)) if rnd.random() < 0.5 else s.SaslCredential(r_text(rnd), r_opt_bytes(rnd, True))
        return s.BindRequest(i, c, r_int(rnd) if rnd.random() < 0.3 else 3, r_text(rnd), auth)
    if kind == "bindResp":
        return s.BindResponse(i, c, r_result(rnd), r_opt_bytes(rnd))
    if kind == "unbind":
        return s.UnbindRequest(i, c)
    if kind == "searchReq":
        attrs = [r_attr(rnd) for _ in range(rnd.randrange(0, 4))]
        if rnd.random() < 0.3:   # the special selectors of RFC 4511 4.5.1.8, alone and mixed with others, repeated
            attrs = rnd.choice((["1.1"], ["cn", "1.1"], ["1.1", "*"], ["*", "+"], ["1.1", "1.1"], ["+", "cn", "1.1", "cn"], ["*"]))
        return s.SearchRequest(i, c, r_text(rnd), s.SearchScope(rnd.randrange(3)), s.DereferencingPolicy(rnd.randrange(4)), r_int(rnd), r_int(rnd),
                               rnd.random() < 0.5, r_filter(rnd, rnd.randrange(0, 4)), attrs)
    if kind == "entry":
        return s.SearchResultEntry(i, c, r_text(rnd), [s.PartialAttribute(r_attr(rnd), [r_bytes(rnd, True) for _ in range(rnd.randrange(0, 4))])
                                                        for _ in range(rnd.randrange(0, 4))])
    if kind == "done":
        return s.SearchResultDone(i, c, r_result(rnd))
    if kind == "ref":
        return s.SearchResultReference(i, c, [r_text(rnd) for _ in range(rnd.randrange(0, 4))])
    if kind == "extReq":
        return s.ExtendedRequest(i, c, r_oid(rnd), r_opt_bytes(rnd, True))
    if kind == "extResp":
        name = None if rnd.random() < 0.4 else r_oid(rnd)
        return s.ExtendedResponse(i, c, r_result(rnd), name, r_opt_bytes(rnd))
    raise ValueError(kind)
