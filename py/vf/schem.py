"""Schema text engine: C16, C17 (spec/Schema4512.tla, SchemaGen.tla, SchemaTrace.tla)."""
from __future__ import annotations

import os
import random
import typing as t

from . import common as C
from . import msggen

TYPES = ("oc", "at", "dcr")


def cps(s: t.Optional[str]) -> t.List[int]:
    return [ord(c) for c in (s or "")]


def txt(c: t.Sequence[int]) -> str:
    return "".join(chr(x) for x in c)


def classes() -> t.Dict[str, t.Any]:
    import sansldap.schema as S

    return {"oc": S.ObjectClassDescription, "at": S.AttributeTypeDescription, "dcr": S.DITContentRuleDescription}


def to_abstract(d: t.Any) -> t.Dict[str, t.Any]:
    import sansldap.schema as S

    ext = [{"name": cps(k), "vals": [cps(v) for v in vs]} for k, vs in d.extensions.items()]
    base = {"oid": cps(d.oid), "names": [cps(n) for n in d.names], "hasDesc": d.description is not None, "desc": cps(d.description), "obsolete": bool(d.obsolete)}
    if type(d) is S.ObjectClassDescription:
        return {"type": "oc", **base, "sup": [cps(x) for x in d.super_types], "kind": str(getattr(d.kind, "value", d.kind)), "must": [cps(x) for x in d.must],
                "may": [cps(x) for x in d.may], "ext": ext}
    if type(d) is S.DITContentRuleDescription:
        return {"type": "dcr", **base, "aux": [cps(x) for x in d.aux], "must": [cps(x) for x in d.must], "may": [cps(x) for x in d.may],
                "never": [cps(x) for x in d.never], "ext": ext}
    if type(d) is S.AttributeTypeDescription:
        return {"type": "at", **base, "hasSup": d.super_type is not None, "sup": cps(d.super_type), "hasEq": d.equality is not None, "eq": cps(d.equality),
                "hasOrd": d.ordering is not None, "ord": cps(d.ordering), "hasSub": d.substrings is not None, "sub": cps(d.substrings),
                "hasSyntax": d.syntax is not None, "syntax": cps(d.syntax), "hasLen": d.syntax_length is not None,
                "len": cps(str(d.syntax_length)) if d.syntax_length is not None else [], "single": bool(d.single_value), "collective": bool(d.collective),
                "noUserMod": bool(d.no_user_modification), "usage": str(getattr(d.usage, "value", d.usage)), "ext": ext}
    return {"type": "opaque", "repr": repr(d)[:100]}


def from_abstract(a: t.Dict[str, t.Any]) -> t.Any:
    import sansldap.schema as S

    ext = {txt(e["name"]): [txt(v) for v in e["vals"]] for e in a["ext"]}
    common = dict(oid=txt(a["oid"]), names=[txt(n) for n in a["names"]], description=txt(a["desc"]) if a["hasDesc"] else None, obsolete=a["obsolete"], extensions=ext)
    if a["type"] == "oc":
        return S.ObjectClassDescription(**common, super_types=[txt(x) for x in a["sup"]], kind=S.ObjectClassKind(a["kind"]), must=[txt(x) for x in a["must"]],
                                        may=[txt(x) for x in a["may"]])
    if a["type"] == "dcr":
        return S.DITContentRuleDescription(**common, aux=[txt(x) for x in a["aux"]], must=[txt(x) for x in a["must"]], may=[txt(x) for x in a["may"]],
                                           never=[txt(x) for x in a["never"]])
    return S.AttributeTypeDescription(**common, super_type=txt(a["sup"]) if a["hasSup"] else None, equality=txt(a["eq"]) if a["hasEq"] else None,
                                      ordering=txt(a["ord"]) if a["hasOrd"] else None, substrings=txt(a["sub"]) if a["hasSub"] else None,
                                      syntax=txt(a["syntax"]) if a["hasSyntax"] else None, syntax_length=int(txt(a["len"])) if a["hasLen"] else None,
                                      single_value=a["single"], collective=a["collective"], no_user_modification=a["noUserMod"], usage=S.AttributeTypeUsage(a["usage"]))


def str_event(a: t.Dict[str, t.Any]) -> t.Dict[str, t.Any]:
    cls = classes()[a["type"]]
    e: t.Dict[str, t.Any] = {"op": "str", "type": a["type"], "def": a, "text": [], "backres": "ok", "back": {"type": "none"}}
    try:
        text = str(from_abstract(a))
        e["text"] = cps(text)
    except BaseException as ex:  # noqa: BLE001
        e["backres"] = "str:" + type(ex).__name__
        return e
    try:
        e["back"] = to_abstract(cls.from_string(text))
    except BaseException as ex:  # noqa: BLE001
        e["backres"] = type(ex).__name__
        e["msg"] = str(ex)[:100]
    return e


def parse_event(typ: str, text: str) -> t.Dict[str, t.Any]:
    cls = classes()[typ]
    e: t.Dict[str, t.Any] = {"op": "parse", "type": typ, "text": cps(text), "res": "ok", "def": {"type": "none"}}
    try:
        e["def"] = to_abstract(cls.from_string(text))
    except ValueError as ex:
        e["res"] = "ValueError"
        e["msg"] = str(ex)[:100]
    except BaseException as ex:  # noqa: BLE001
        e["res"] = type(ex).__name__
        e["msg"] = str(ex)[:100]
    return e


# ---- generator ----------------------------------------------------------------------------------------------------
def _cfg(path: str, typ: str, weight: int, spacing: int, quoted: bool = True, nstr: int = 21) -> None:
    with open(path, "w") as f:
        f.write(f'CONSTANTS\n  Type = "{typ}"\n  NStr = {nstr}\n  NOid = 10\n  MaxList = 3\n  MaxExt = 3\n  MaxExtVals = 3\n  Spacing = {spacing}\n  MaxWeight = {weight}\n'
                f"  Quoted = {'TRUE' if quoted and typ == 'at' else 'FALSE'}\n  MaxChoices = 400\nSPECIFICATION Spec\nCHECK_DEADLOCK FALSE\nINVARIANT ParseOfUnparse\n")


def generate(rep: C.Report, wd: str, tier: str, seed: int, spacing: int) -> t.List[t.Any]:
    jobs = []
    weight = 3 if tier == "quick" else 4
    for typ in TYPES:
        p = os.path.join(wd, f"sg-{typ}.cfg")
        _cfg(p, typ, weight, spacing)
        jobs.append(dict(module="SchemaGen", cfg=p, wd=wd, workers=1, xss="256m", tag=f"sg{typ}", timeout=2400))
    nsim = 3 if tier == "quick" else 9
    for j in range(nsim):
        typ = TYPES[j % 3]
        p = os.path.join(wd, f"sg-sim-{j}.cfg")
        _cfg(p, typ, 1000, max(spacing, 0))
        jobs.append(dict(module="SchemaGen", cfg=p, wd=wd, workers=1, xss="256m", tag=f"sgsim{j}", timeout=2400,
                         extra=["-simulate", f"num={500 if tier == 'quick' else 5000}", "-depth", "400", "-seed", str(seed * 100 + j + 3)]))
    res = C.run_tlc_parallel(jobs)
    cases: t.List[t.Any] = []
    for typ, r in zip(TYPES, res):
        rep.add_tlc(f"SchemaGen {typ}: every derivation with at most {weight} deviations from the minimal definition (full pools, spacing 0..{spacing}); ParseOfUnparse", r, exhaustive=True)
        cases += r.json_cases("CASE")
    sim = []
    for r in res[3:]:
        sim += r.json_cases("CASE")
    rep.add_part("SchemaGen -simulate (random full mixes of all clauses, strings, list forms and spacing)", cases=len(sim))
    return cases + sim


def validate(rep: C.Report, wd: str, events: t.List[t.Any], label: str) -> None:
    verdicts, gen, dist = C.validate_traces("SchemaTrace", "SchemaTrace.cfg", events, wd, tag="strace", timeout=2400, xss="256m", min_per_shard=400)
    rep.states += dist
    rep.transitions += gen
    rep.traces += len(events)
    rep.add_part(f"code->spec trace validation (SchemaTrace.tla): {label}", events=len(events), verdicts=len(verdicts))
    for idx, prop, clause in verdicts:
        e = events[idx]
        rep.violation(f"{clause}/{e['type']}", f"{clause}: {e['op']} of {txt(e['text'])[:160]!r} -> {e.get('res', e.get('backres'))} {e.get('msg', '')}", e, prop=prop)


# ---- random definitions (C16) ---------------------------------------------------------------------------------------
def r_numoid(rnd: random.Random) -> str:
    return ".".join(str(rnd.choice((0, 1, 2, 9, 10, 113556, 2342, 2**31, 2**64, 329800735698586629295641978511506172918, 10**60 + 7))) if j else str(rnd.randrange(0, 3))
                    for j in range(rnd.choice((2, 3, 4, 5, 7, 7, 40))))


def r_descr(rnd: random.Random) -> str:
    return rnd.choice("abcXYZ") + "".join(rnd.choice("abcXYZ019-") for _ in range(rnd.randrange(0, 8)))


def r_oid(rnd: random.Random) -> str:
    return r_descr(rnd) if rnd.random() < 0.6 else r_numoid(rnd)


def r_str(rnd: random.Random) -> str:
    n = rnd.choice((1, 1, 2, 3, 5, 9, 30))
    k = rnd.randrange(4)
    if k == 0:
        return "".join(rnd.choice("'\\|()$ {}Xa\n\r\t\x0b\x0c\x1c\x85\u00e9\u2028\U0001f60027 5cC") for _ in range(n))
    if k == 2 and n > 2:   # line-boundary characters followed by a space (what an LDIF unfolder / splitlines would touch)
        return "see" + rnd.choice(("\n ", "\r\n ", "\n\t", "\r ", "\x85 ", "\u2028 ", "\n  ", " \n")) + "RFC" + "".join(msggen.r_char(rnd) for _ in range(n - 2))
    if k == 1:
        return rnd.choice(("\\27", "\\5c", "\\5C", "C:\\27", "\\\\27", "'\\''", "a\\5c5C", "\\5c27")) + "".join(msggen.r_char(rnd) for _ in range(n - 1))
    return "".join(msggen.r_char(rnd) for _ in range(n))


def r_def(rnd: random.Random) -> t.Dict[str, t.Any]:
    typ = rnd.choice(TYPES)
    names = [cps(r_descr(rnd)) for _ in range(rnd.choice((0, 0, 1, 1, 2, 3)))]
    ol = lambda: [cps(r_oid(rnd)) for _ in range(rnd.choice((0, 0, 1, 2, 3)))]  # noqa: E731
    hasd = rnd.random() < 0.6
    ext = []
    used = set()
    for _ in range(rnd.choice((0, 0, 1, 2, 3))):
        nm = "".join(rnd.choice("ABCabc-_") for _ in range(rnd.randrange(1, 8)))
        if rnd.random() < 0.15:   # a name that itself begins like the prefix (the sentence reads X-X-..), or is very long
            nm = rnd.choice(("X-", "x-", "X-X-", "X")) + nm if rnd.random() < 0.7 else nm * 40
        if nm in used:
            continue
        used.add(nm)
        ext.append({"name": cps(nm), "vals": [cps(r_str(rnd)) for _ in range(rnd.choice((0, 1, 1, 2, 3, 3, 40)))]})
    base = {"type": typ, "oid": cps(r_numoid(rnd)), "names": names, "hasDesc": hasd, "desc": cps(r_str(rnd)) if hasd else [], "obsolete": rnd.random() < 0.3, "ext": ext}
    if typ == "oc":
        return {**base, "sup": ol(), "kind": rnd.choice(("ABSTRACT", "STRUCTURAL", "AUXILIARY")), "must": ol(), "may": ol()}
    if typ == "dcr":
        return {**base, "aux": ol(), "must": ol(), "may": ol(), "never": ol()}
    o = lambda: (True, cps(r_oid(rnd))) if rnd.random() < 0.4 else (False, [])  # noqa: E731
    (hs, su), (he, eq), (ho, od), (hb, sb) = o(), o(), o(), o()
    hsy = rnd.random() < 0.6
    hl = hsy and rnd.random() < 0.5
    return {**base, "hasSup": hs, "sup": su, "hasEq": he, "eq": eq, "hasOrd": ho, "ord": od, "hasSub": hb, "sub": sb, "hasSyntax": hsy,
            "syntax": cps(r_numoid(rnd)) if hsy else [], "hasLen": hl, "len": cps(str(rnd.choice((0, 1, 64, 2**31 - 1, 2**32, rnd.randrange(0, 10**6))))) if hl else [],
            "single": rnd.random() < 0.3, "collective": rnd.random() < 0.3, "noUserMod": rnd.random() < 0.3,
            "usage": rnd.choice(("userApplications", "directoryOperation", "distributedOperation", "dSAOperation"))}


def run_c16(tier: str, seed: int) -> int:
    C.use_repo()
    rep = C.Report("C16", tier, seed)
    rnd = random.Random(seed)
    wd = C.workdir("C16")
    try:
        cases = generate(rep, wd, tier, seed, spacing=0)
        defs: t.Dict[str, t.Any] = {}
        for c in cases:
            defs.setdefault(C.json.dumps(c["def"], sort_keys=True), c["def"])
        alld = list(defs.values()) + [r_def(rnd) for _ in range(3000 if tier == "quick" else 50000)]
        events = C.guarded_events(rep, str_event, alld, "str()/from_string() of a schema definition")
        for e in events:
            rep.case(str(e["def"])[:500])
        validate(rep, wd, events, "str(definition) must be an RFC 4512 sentence denoting the definition; from_string(str(d)) = d")
        for e in events[:2]:
            rep.sample({"def": e["def"], "text": txt(e["text"])})
        rep.rule = ("definitions: every distinct definition derived by SchemaGen (every clause, list lengths 0-3, the string pool with quotes / backslashes followed by 27, 5C, 5c / "
                    "Unicode / structural characters, syntax lengths 0..2^32, 0-3 extensions) plus seeded random definitions; distinct by definition")
        rep.assumptions = ["description and extension strings are non-empty (RFC 4512 dstring = 1*...)", "extension names are distinct within a definition (the library keeps a dict)",
                           "an absent kind / usage denotes the RFC default (STRUCTURAL / userApplications)"]
        return rep.finish()
    finally:
        C.cleanup(wd)


EDIT_CHARS = "()'\\$ {}X-a1.\n\t\x00\u00e9"


def run_c17(tier: str, seed: int) -> int:
    C.use_repo()
    rep = C.Report("C17", tier, seed)
    rnd = random.Random(seed)
    wd = C.workdir("C17")
    try:
        cases = generate(rep, wd, tier, seed, spacing=2)
        items: t.List[t.Tuple[str, str]] = []
        seen = set()
        for c in cases:
            tx = txt(c["text"])
            if (c["type"], tx) not in seen:
                seen.add((c["type"], tx))
                items.append((c["type"], tx))
        # totality: single-character edits of sentences, random text
        base = rnd.sample(cases, min(len(cases), 120 if tier == "quick" else 1500))
        for c in base:
            tx = txt(c["text"])
            for _ in range(25 if tier == "quick" else 60):
                p = rnd.randrange(len(tx) + 1)
                k = rnd.randrange(3)
                ch = rnd.choice(EDIT_CHARS)
                m = tx[:p] + ch + tx[p:] if k == 0 else tx[:p] + tx[p + 1:] if k == 1 else tx[:p] + ch + tx[p + 1:]
                if (c["type"], m) not in seen:
                    seen.add((c["type"], m))
                    items.append((c["type"], m))
        for _ in range(600 if tier == "quick" else 10000):
            typ = rnd.choice(TYPES)
            items.append((typ, "".join(rnd.choice("()'\\$ {}X-a1.NAMEDSCUP\n\u00e9") for _ in range(rnd.choice((0, 1, 3, 8, 20, 40))))))
        for it in items:
            rep.case((it[0], it[1][:300]))
        events = C.guarded_events(rep, lambda it: parse_event(it[0], it[1]), items, "from_string() of schema text")
        validate(rep, wd, events, "from_string(sentence) must give the fields the grammar denotes; any text: definition or ValueError")
        for e in events[:2]:
            rep.sample({"type": e["type"], "text": txt(e["text"]), "res": e["res"]})
        rep.rule = ("sentences: every SchemaGen derivation with at most k deviations from the minimal definition over full pools with 0-2 spaces at every WSP and 1-3 at every SP, single and "
                    "parenthesised lists, \\27 \\5c \\5C escapes, x-/X- extensions, the quoted AD SYNTAX; -simulate random full mixes; single-character edits and random text for totality; "
                    "distinct by (type, text)")
        rep.assumptions = ["outside the grammar any definition or ValueError is accepted", "extension names distinct within a definition"]
        return rep.finish()
    finally:
        C.cleanup(wd)
