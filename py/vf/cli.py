"""bin/check <ID> [--tier quick|thorough] [--replay FILE]"""
from __future__ import annotations

import argparse
import importlib
import os
import sys
import traceback

sys.path.insert(0, os.path.dirname(os.path.dirname(os.path.abspath(__file__))))

from vf import common as C  # noqa: E402

MODULES = {
    "C01": "vf.c01",
    "C02": "vf.c02",
    "C03": "vf.c03",
    "C04": "vf.c04",
    "C05": "vf.c05",
    "C06": "vf.c06",
    "C07": "vf.c07",
    "C08": "vf.c08",
    "C09": "vf.c09",
    "C10": "vf.c10",
    "C11": "vf.c11",
    "C12": "vf.c12",
    "C13": "vf.c13",
    "C14": "vf.c14",
    "C15": "vf.c15",
    "C16": "vf.c16",
    "C17": "vf.c17",
    "C18": "vf.c18",
    "C19": "vf.c19",
}


def main() -> int:
    import faulthandler
    import signal

    faulthandler.register(signal.SIGUSR1, all_threads=True)  # kill -USR1 <pid> prints where a long run currently is
    ap = argparse.ArgumentParser()
    ap.add_argument("prop")
    ap.add_argument("--tier", default=os.environ.get("VERIF_TIER", "quick"), choices=["quick", "thorough"])
    ap.add_argument("--replay", default=None)
    a = ap.parse_args()
    seed = int(os.environ.get("VERIF_SEED", "0") or 0)
    os.environ.setdefault("PYTHONHASHSEED", "0")
    if a.prop not in MODULES:
        print(f"unknown property {a.prop}", file=sys.stderr)
        return 2
    try:
        mod = importlib.import_module(MODULES[a.prop])
        if a.replay:
            import json

            with open(a.replay) as f:
                rec = json.load(f)
            os.environ["VERIF_REPLAY_SIGNATURE"] = rec["signature"]
            os.environ["VERIF_REPLAY_FILE"] = a.replay
            print(f"replaying {rec['signature']} ({rec.get('what', '')[:200]}) with tier={rec.get('tier', a.tier)} seed={rec.get('seed', seed)}")
            return mod.run(rec.get("tier", a.tier), int(rec.get("seed", seed)))
        return mod.run(a.tier, seed)
    except C.MachineryError as e:
        print(f"MACHINERY-FAILURE property={a.prop}: {e}", file=sys.stderr)
        return 2
    except Exception:  # noqa: BLE001
        traceback.print_exc()
        print(f"MACHINERY-FAILURE property={a.prop}: unexpected exception in the harness", file=sys.stderr)
        return 2


if __name__ == "__main__":
    sys.exit(main())
