"""Model-based verification harness for jborean93/sansldap (TLA+ specifications in ../../spec)."""
