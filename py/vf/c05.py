from . import common as C
from . import codec, corrupt, strace


def run(tier: str, seed: int, prop: str = "C05") -> int:
    C.use_repo()
    rep = C.Report(prop, tier, seed)
    wd = C.workdir(prop)
    try:
        # every transition of Session.tla on real sessions: a receive that fails must raise ProtocolError and nothing else
        # (foreign exceptions of receive edges are attributed to C05), also for well-formed units that violate the
        # protocol after particular histories
        from . import sess

        sess.run_lifecycle(rep, wd, tier, seed, aged=False)
        strace.run_traces(rep, wd, tier, seed)
        corrupt.replay(rep, codec.generate_corruptions(rep, wd, tier), seed)
        rep.rule = ("recorded receive histories of client and server sessions over streams with malformed units (complete envelopes with broken interiors, bad outer "
                    "headers, unknown choices, deep nesting, byte-level mutations of valid units, random bytes) before/after valid units under all chunking strategies; "
                    "judged by SessionTrace.tla with the independent framer Ber!Frame; distinct by event content")
        rep.assumptions = ["a unit the reference decoder does not classify may be returned as a message or rejected; only the error class, the count against the "
                           "independent framing, fail-closed behaviour and the attached notification are judged"]
        return rep.finish()
    finally:
        C.cleanup(wd)
