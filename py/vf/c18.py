from .regex import run  # noqa: F401
