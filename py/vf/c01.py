from .codec import run_c01 as run  # noqa: F401
