from . import sess


def run(tier: str, seed: int) -> int:
    return sess.run_prop("C09", tier, seed)
