"""Shared harness: paths, TLC runner, TLC output parsing, evidence / replay / known-findings handling.

Everything that touches the implementation imports it from ``$VERIF_REPO/src`` (default /repo/src), which is put
first on sys.path so that the current working tree is what gets exercised.
"""
from __future__ import annotations

import hashlib
import json
import os
import re
import shutil
import subprocess
import sys
import time
import typing as t

VERIF = os.path.dirname(os.path.dirname(os.path.dirname(os.path.abspath(__file__))))
REPO = os.environ.get("VERIF_REPO", "/repo")
SPEC = os.path.join(VERIF, "spec")
WORK = os.path.join(VERIF, ".work")
EVIDENCE = os.environ.get("VERIF_EVIDENCE_DIR") or os.path.join(VERIF, "evidence")
REPLAYS = os.path.join(os.environ["VERIF_EVIDENCE_DIR"], "replays") if os.environ.get("VERIF_EVIDENCE_DIR") else os.path.join(VERIF, "replays")
KNOWN = os.path.join(VERIF, "known_findings.json")
TLA_CP = "/opt/veriftools/tla/tla2tools.jar:/opt/veriftools/tla/CommunityModules-deps.jar"
NCPU = os.cpu_count() or 4


def use_repo() -> None:
    src = os.path.join(REPO, "src")
    if not os.path.isdir(os.path.join(src, "sansldap")):
        raise MachineryError(f"no sansldap sources under {src}")
    if src in sys.path:
        sys.path.remove(src)
    sys.path.insert(0, src)
    for name in list(sys.modules):
        if name == "sansldap" or name.startswith("sansldap."):
            del sys.modules[name]
    import sansldap  # noqa: F401

    got = os.path.realpath(os.path.dirname(sansldap.__file__))
    want = os.path.realpath(os.path.join(src, "sansldap"))
    if got != want:
        raise MachineryError(f"sansldap imported from {got}, expected {want}")
    install_watchdog()


class Hang(Exception):
    """A public call of the library used more than CALL_CPU_LIMIT seconds of CPU time (raised inside the call by the
    harness' watchdog).  The drivers record it like any other foreign exception, so a change that makes the library
    loop for ever yields a verdict instead of a check that never ends."""


CALL_CPU_LIMIT = float(os.environ.get("VERIF_CALL_CPU_LIMIT", "20"))
_WD = {"depth": 0, "hangs": 0}


def too_many_hangs() -> bool:
    """Drivers stop producing further cases once several calls did not return (each costs CPU time; the verdict is
    already certain)."""
    return _WD["hangs"] >= 5


def _limit_now() -> float:
    # the first call that does not return gets the full budget; once the library has shown that it can loop, later
    # calls get less and less (a change that loops on a whole class of inputs must not cost 20 s per input)
    h = _WD["hangs"]
    return CALL_CPU_LIMIT if h == 0 else min(CALL_CPU_LIMIT, 2.0) if h == 1 else min(CALL_CPU_LIMIT, 0.3)


def _guard(fn: t.Callable[..., t.Any], label: str) -> t.Callable[..., t.Any]:
    import functools
    import signal
    import threading

    @functools.wraps(fn)
    def wrapper(*a: t.Any, **kw: t.Any) -> t.Any:
        if _WD["depth"] or threading.current_thread() is not threading.main_thread():
            return fn(*a, **kw)

        limit = _limit_now()

        def on_alarm(signum: int, frame: t.Any) -> None:
            _WD["hangs"] += 1
            raise Hang(f"{label} used more than {limit:g} s of CPU time")

        _WD["depth"] = 1
        old = signal.signal(signal.SIGVTALRM, on_alarm)
        signal.setitimer(signal.ITIMER_VIRTUAL, limit)
        try:
            return fn(*a, **kw)
        finally:
            signal.setitimer(signal.ITIMER_VIRTUAL, 0)
            signal.signal(signal.SIGVTALRM, old)
            _WD["depth"] = 0

    wrapper._verif_guarded = True  # type: ignore[attr-defined]
    return wrapper


def install_watchdog() -> None:
    """Wrap the public entry points of the freshly imported library with a CPU-time limit per outermost call.  The
    wrappers change nothing else (nested calls pass straight through); VERIF_NO_WATCHDOG=1 switches them off."""
    if os.environ.get("VERIF_NO_WATCHDOG") == "1":
        return
    import sansldap
    from sansldap import _filter, _messages, _session, asn1, schema

    def wrap_class(cls: t.Any, names: t.Iterable[str]) -> None:
        for n in names:
            f = cls.__dict__.get(n)
            if f is None or getattr(f, "_verif_guarded", False):
                continue
            if isinstance(f, classmethod):
                setattr(cls, n, classmethod(_guard(f.__func__, f"{cls.__name__}.{n}")))
            elif isinstance(f, staticmethod):
                setattr(cls, n, staticmethod(_guard(f.__func__, f"{cls.__name__}.{n}")))
            elif callable(f):
                setattr(cls, n, _guard(f, f"{cls.__name__}.{n}"))

    for cls in (_session.LDAPSession, _session.LDAPClient, _session.LDAPServer):
        wrap_class(cls, [n for n in cls.__dict__ if not n.startswith("_")])
    wrap_class(_messages.LDAPMessage, ["pack"])
    for cls in (asn1.ASN1Reader, asn1.ASN1Writer):
        wrap_class(cls, [n for n in cls.__dict__ if not n.startswith("_") and not isinstance(cls.__dict__[n], property)])
    wrap_class(_filter.LDAPFilter, ["from_string", "__str__"])
    for cls in vars(_filter).values():
        if isinstance(cls, type) and issubclass(cls, _filter.LDAPFilter):
            wrap_class(cls, ["__str__", "from_string"])
    for cls in vars(schema).values():
        if isinstance(cls, type) and hasattr(cls, "from_string"):
            wrap_class(cls, ["from_string", "__str__"])
    g = _guard(_messages.unpack_ldap_message, "unpack_ldap_message")
    for mod in (_messages, sansldap):
        if hasattr(mod, "unpack_ldap_message"):
            setattr(mod, "unpack_ldap_message", g)


def _copy_memoryview(mv: memoryview) -> t.Any:
    data = mv.tobytes()
    return (_make_memoryview, (data, mv.readonly))


def _make_memoryview(data: bytes, readonly: bool) -> memoryview:
    return memoryview(data if readonly else bytearray(data))


# The harness observes sessions through copy.deepcopy (what is queued, what a call would do).  Nothing promises that a
# session only holds picklable values: a tree that keeps a memoryview in a session must still be judged, not crash the
# check - copies get their own octets.
import copyreg  # noqa: E402

copyreg.pickle(memoryview, _copy_memoryview)


class MachineryError(Exception):
    """The verification machinery itself failed (exit code 2) - never a verdict about the library."""


# --------------------------------------------------------------------------------------------------------------
# TLC
# --------------------------------------------------------------------------------------------------------------
class TlcResult:
    def __init__(self, out: str, rc: int, wall: float, cmd: t.List[str]):
        self.out = out
        self.rc = rc
        self.wall = wall
        self.cmd = cmd
        m = re.search(r"(\d+) states generated, (\d+) distinct states found", out)
        self.generated = int(m.group(1)) if m else 0
        self.distinct = int(m.group(2)) if m else 0
        self.completed = "Model checking completed. No error has been found." in out or bool(
            re.search(r"Finished in ", out) and "Error:" not in out
        )
        self.violated = re.findall(r"Error: (?:Invariant|Action property|Temporal properties?) (\S+) (?:is|was|were) violated", out)
        self.postcondition_failed = "The postcondition" in out and "violated" in out or "POSTCONDITION" in out and "violated" in out

    def lines(self, tag: str) -> t.Iterator[str]:
        pref = f'<<"{tag}", '
        for line in self.out.splitlines():
            if line.startswith(pref):
                yield line

    def json_cases(self, tag: str = "CASE") -> t.List[t.Any]:
        """PrintT(<<"TAG", ToJson(x)>>) lines -> python objects."""
        res = []
        pref = f'<<"{tag}", '
        for line in self.out.splitlines():
            if line.startswith(pref) and line.endswith(">>"):
                body = line[len(pref) : -2]
                res.append(json.loads(json.loads(body)))
        return res

    def tuples(self, tag: str) -> t.List[t.List[t.Any]]:
        """PrintT(<<"TAG", a, b, "c">>) lines with scalar fields -> python lists."""
        res = []
        pref = f'<<"{tag}", '
        for line in self.out.splitlines():
            if line.startswith(pref) and line.endswith(">>"):
                body = "[" + line[len(pref) : -2] + "]"
                body = body.replace("TRUE", "true").replace("FALSE", "false").replace("<<", "[").replace(">>", "]")
                try:
                    res.append(json.loads(body))
                except ValueError:
                    res.append([line])
        return res


def workdir(tag: str) -> str:
    d = os.path.join(WORK, f"{tag}-{os.getpid()}")
    os.makedirs(d, exist_ok=True)
    return d


def cleanup(d: str) -> None:
    shutil.rmtree(d, ignore_errors=True)


def run_tlc(
    module: str,
    cfg: str,
    wd: str,
    *,
    workers: t.Union[int, str] = 1,
    env: t.Optional[t.Dict[str, str]] = None,
    timeout: int = 900,
    extra: t.Sequence[str] = (),
    heap: str = "6g",
    xss: str = "",
    expect_ok: bool = True,
    spec_dir: str = SPEC,
    tag: str = "",
) -> TlcResult:
    """Run TLC on spec_dir/module.tla with spec_dir/cfg.  Raises MachineryError if TLC does not complete
    (unless expect_ok is False: the caller interprets invariant violations itself)."""
    meta = os.path.join(wd, f"meta-{tag or module}-{int(time.time()*1000)%100000000}")
    cmd = [
        "java",
        "-XX:+UseParallelGC",
        f"-Xmx{heap}",
        *([f"-Xss{xss}"] if xss else []),
        "-cp",
        TLA_CP,
        "tlc2.TLC",
        "-workers",
        str(workers),
        "-metadir",
        meta,
        "-noGenerateSpecTE",
        "-config",
        cfg,
        *extra,
        module + ".tla",
    ]
    e = dict(os.environ)
    if env:
        e.update(env)
    t0 = time.time()
    try:
        p = subprocess.run(cmd, cwd=spec_dir, env=e, stdout=subprocess.PIPE, stderr=subprocess.STDOUT, timeout=timeout)
    except subprocess.TimeoutExpired as ex:
        raise MachineryError(f"TLC timed out after {timeout}s: {' '.join(cmd)}") from ex
    finally:
        shutil.rmtree(meta, ignore_errors=True)
    out = p.stdout.decode("utf-8", errors="replace")
    res = TlcResult(out, p.returncode, time.time() - t0, cmd)
    if expect_ok and not res.completed:
        lines = out.splitlines()
        first = next((j for j, ln in enumerate(lines) if ln.startswith("Error:") or "Exception" in ln), None)
        tail = ("\n".join(ln[:400] for ln in lines[first: first + 12]) + "\n...\n" if first is not None else "") + "\n".join(ln[:400] for ln in lines[-8:])
        raise MachineryError(f"TLC did not complete cleanly ({module} / {cfg}, rc={p.returncode}):\n{tail}")
    return res


def run_apalache(module: str, args: t.Sequence[str], wd: str, *, timeout: int = 600, spec_dir: str = SPEC, tag: str = "") -> t.Tuple[bool, float, str]:
    """apalache-mc check <args> module.tla; returns (no_error, wall, output).  Raises MachineryError when Apalache does
    not reach a verdict (missing, timed out, parse / type error)."""
    out_dir = os.path.join(wd, f"apa-{tag or module}-{int(time.time()*1000)%100000000}")
    exe = shutil.which("apalache-mc") or "/opt/veriftools/apalache/bin/apalache-mc"
    cmd = [exe, "check", *args, f"--out-dir={out_dir}", module + ".tla"]
    e = dict(os.environ)
    e.setdefault("JVM_ARGS", "-Xmx4g")
    t0 = time.time()
    try:
        p = subprocess.run(cmd, cwd=spec_dir, env=e, stdout=subprocess.PIPE, stderr=subprocess.STDOUT, timeout=timeout)
    except (subprocess.TimeoutExpired, OSError) as ex:
        raise MachineryError(f"apalache-mc did not run to completion: {' '.join(cmd)}: {ex}") from ex
    finally:
        shutil.rmtree(out_dir, ignore_errors=True)
    out = p.stdout.decode("utf-8", errors="replace")
    if "The outcome is: NoError" in out and p.returncode == 0:
        return True, time.time() - t0, out
    if "The outcome is: Error" in out:
        return False, time.time() - t0, out
    raise MachineryError(f"apalache-mc reached no verdict ({module} {' '.join(args)}, rc={p.returncode}):\n" + "\n".join(out.splitlines()[-30:]))


def run_tlc_parallel(jobs: t.Sequence[t.Dict[str, t.Any]], max_par: int = NCPU) -> t.List[TlcResult]:
    """Run several run_tlc(**job) invocations concurrently (threads; each is a JVM subprocess)."""
    from concurrent.futures import ThreadPoolExecutor

    with ThreadPoolExecutor(max_workers=max(1, min(max_par, len(jobs)))) as ex:
        futs = [ex.submit(run_tlc, **j) for j in jobs]
        return [f.result() for f in futs]


def write_ndjson(path: str, events: t.Iterable[t.Any]) -> int:
    n = 0
    with open(path, "w") as f:
        for e in events:
            f.write(json.dumps(e, separators=(",", ":")))
            f.write("\n")
            n += 1
    return n


def validate_traces(
    module: str,
    cfg: str,
    events: t.Sequence[t.Any],
    wd: str,
    *,
    shards: int = NCPU,
    timeout: int = 900,
    tag: str = "trace",
    min_per_shard: int = 200,
    boundary: t.Optional[t.Callable[[t.Any], bool]] = None,
    xss: str = "",
) -> t.Tuple[t.List[t.Tuple[int, str, str]], int, int]:
    """Model-check a *Trace specification over recorded events.

    The events are split into contiguous shards, each validated by one TLC process (the trace specifications are
    sequential, ``-workers 1``).  Every trace action is total: it consumes the event and prints
    ``<<"VERDICT", line, "Cxx", "Clause">>`` for each failing clause.  The POSTCONDITION of the trace spec demands that
    every line was consumed; anything else is a machinery failure.

    Returns (verdicts as (global event index, property, clause), states generated, distinct states).
    """
    n = len(events)
    if n == 0:
        return [], 0, 0
    k = max(1, min(shards, n // min_per_shard or 1))
    bounds = [(i * n) // k for i in range(k + 1)]
    if boundary is not None:  # a shard starts where a trace starts
        for j in range(1, k):
            b = bounds[j]
            while b < n and not boundary(events[b]):
                b += 1
            bounds[j] = b
        bounds = sorted(set(bounds))
        k = len(bounds) - 1
    jobs = []
    for s in range(k):
        path = os.path.join(wd, f"{tag}-{s}.ndjson")
        write_ndjson(path, events[bounds[s] : bounds[s + 1]])
        jobs.append(
            dict(module=module, cfg=cfg, wd=wd, workers=1, env={"TRACE_FILE": path}, timeout=timeout, tag=f"{tag}{s}", xss=xss)
        )
    results = run_tlc_parallel(jobs)
    verdicts: t.List[t.Tuple[int, str, str]] = []
    gen = dist = 0
    for s, r in enumerate(results):
        cnt = bounds[s + 1] - bounds[s]
        if r.generated != cnt + 1:
            tail = "\n".join(r.out.splitlines()[-30:])
            raise MachineryError(f"{module}: shard {s} consumed {r.generated - 1} of {cnt} events:\n{tail}")
        gen += r.generated
        dist += r.distinct
        for v in r.tuples("VERDICT"):
            if len(v) < 3:
                raise MachineryError(f"unparsable verdict line {v}")
            verdicts.append((bounds[s] + int(v[0]) - 1, str(v[1]), str(v[2])))
    return verdicts, gen, dist


# --------------------------------------------------------------------------------------------------------------
# results: violations, known findings, evidence
# --------------------------------------------------------------------------------------------------------------
def load_known() -> t.List[t.Dict[str, t.Any]]:
    if not os.path.exists(KNOWN):
        return []
    with open(KNOWN) as f:
        return json.load(f)["findings"]


class Report:
    """Collects what one check run observed and turns it into stdout lines, evidence and exit code."""

    def __init__(self, prop: str, tier: str, seed: int):
        self.prop = prop
        self.tier = tier
        self.seed = seed
        self.t0 = time.time()
        self.states = 0
        self.transitions = 0
        self.traces = 0
        self.evaluations = 0
        self.distinct: t.Set[str] = set()
        self.samples: t.List[t.Any] = []
        self.parts: t.List[t.Dict[str, t.Any]] = []
        self.assumptions: t.List[str] = []
        self.exhaustive_parts: t.List[str] = []
        self.violations: t.Dict[str, t.Dict[str, t.Any]] = {}  # signature -> first case
        self.violation_counts: t.Dict[str, int] = {}
        self.rule = ""
        self.extra: t.Dict[str, t.Any] = {}

    # -- accounting
    def add_tlc(self, name: str, r: TlcResult, exhaustive: bool = False, note: str = "") -> None:
        self.states += r.distinct
        self.transitions += r.generated
        self.parts.append(
            {"part": name, "engine": "tlc", "distinct_states": r.distinct, "states_generated": r.generated,
             "wall_s": round(r.wall, 2), "exhaustive": exhaustive, "note": note}
        )
        if exhaustive:
            self.exhaustive_parts.append(name)

    def add_part(self, name: str, **kw: t.Any) -> None:
        self.parts.append({"part": name, **kw})

    def case(self, key: t.Any, nontrivial: bool = True) -> None:
        self.evaluations += 1
        if nontrivial:
            h = hashlib.blake2b(repr(key).encode(), digest_size=8).hexdigest()
            self.distinct.add(h)

    def sample(self, s: t.Any, limit: int = 6) -> None:
        if len(self.samples) < limit:
            self.samples.append(s)

    # -- verdicts
    def violation(self, signature: str, what: str, case: t.Any, prop: t.Optional[str] = None) -> None:
        """Record a violation of property `prop` (default: this report's property).  Violations attributed to other
        properties are recorded in the evidence but do not decide this check."""
        p = prop or self.prop
        sig = f"{p}/{signature}"
        self.violation_counts[sig] = self.violation_counts.get(sig, 0) + 1
        if sig not in self.violations:
            self.violations[sig] = {"property": p, "signature": sig, "what": what, "case": case}

    def finish(self) -> int:
        known = {k["signature"]: k for k in load_known() if k.get("status") == "open"}
        mine = {s: v for s, v in self.violations.items() if v["property"] == self.prop}
        want = os.environ.get("VERIF_REPLAY_SIGNATURE")
        if want:
            # replay mode: the same run is repeated (same tier and seed as recorded) and only the recorded signature counts
            hit = mine.get(want)
            if hit:
                print(f"REPRODUCED {want}: {hit['what']} [{self.violation_counts[want]} case(s)]")
                print(json.dumps(hit["case"], indent=1, default=repr)[:6000])
                print(f"VIOLATION property={self.prop} replay={os.environ.get('VERIF_REPLAY_FILE', '')}")
                return 1
            print(f"NOT REPRODUCED {want}: the recorded violation does not occur on {REPO} (tier={self.tier} seed={self.seed})")
            return 0
        others = {s: v for s, v in self.violations.items() if v["property"] != self.prop}
        rc = 0
        new = 0
        os.makedirs(os.path.join(REPLAYS, self.prop), exist_ok=True)
        for sig, v in sorted(mine.items()):
            if sig in known:
                print(f"KNOWN-FINDING: property={self.prop} {sig}: {known[sig]['description']} "
                      f"[{self.violation_counts[sig]} case(s) this run]")
                continue
            new += 1
            safe = re.sub(r"[^A-Za-z0-9_.-]+", "_", sig.split("/", 1)[1])[:80]
            path = os.path.join(REPLAYS, self.prop, f"{safe}.json")
            with open(path, "w") as f:
                json.dump({"property": self.prop, "signature": sig, "what": v["what"], "case": v["case"],
                           "count": self.violation_counts[sig], "tier": self.tier, "seed": self.seed,
                           "repo": REPO}, f, indent=1, default=repr)
            print(f"VIOLATION property={self.prop} replay={path}")
            print(f"  {sig}: {v['what']} [{self.violation_counts[sig]} case(s)]")
            rc = 1
        wall = time.time() - self.t0
        cov: t.Dict[str, t.Any] = {
            "states": self.states,
            "transitions": self.transitions,
            "traces_validated_against_impl": self.traces,
            "samples": self.samples or [{"note": "no sample recorded"}],
            "evaluations": self.evaluations,
            "distinct_nontrivial": len(self.distinct),
            "rule": self.rule,
            "exhaustive": bool(self.exhaustive_parts),
            "exhaustive_parts": self.exhaustive_parts,
            "parts": self.parts,
            "known_findings_reobserved": sorted(s for s in mine if s in known),
            "violations_attributed_to_other_properties": {s: self.violation_counts[s] for s in sorted(others)},
        }
        cov.update(self.extra)
        ev = {
            "property_id": self.prop,
            "tier": self.tier,
            "seed": self.seed,
            "level": "model_checking",
            "coverage": cov,
            "assumptions": self.assumptions,
            "wall_s": round(wall, 2),
            "violations": new,
        }
        os.makedirs(EVIDENCE, exist_ok=True)
        with open(os.path.join(EVIDENCE, f"{self.prop}.json"), "w") as f:
            json.dump(ev, f, indent=1, default=repr)
        print(f"[{self.prop}] tier={self.tier} seed={self.seed} states={self.states} transitions={self.transitions} "
              f"impl_cases={self.traces} evaluations={self.evaluations} new_violations={new} wall={wall:.1f}s")
        return rc


# --------------------------------------------------------------------------------------------------------------
# small helpers shared by drivers
# --------------------------------------------------------------------------------------------------------------
def limb(v: int) -> t.Dict[str, t.Any]:
    """python int -> limb value of Ber.tla"""
    a = abs(v)
    return {"neg": v < 0, "mag": list(a.to_bytes((a.bit_length() + 7) // 8, "big"))}


def unlimb(d: t.Dict[str, t.Any]) -> int:
    a = int.from_bytes(bytes(d["mag"]), "big")
    return -a if d["neg"] else a


def digits(n: int, base: int) -> t.List[int]:
    out: t.List[int] = []
    while n:
        out.append(n % base)
        n //= base
    return out[::-1]


def undigits(d: t.Sequence[int], base: int) -> int:
    n = 0
    for x in d:
        n = n * base + x
    return n


def exc_kind(e: BaseException) -> str:
    """Classify an exception the way the trace specifications expect it."""
    import sansldap
    from sansldap.asn1 import NotEnougData

    if isinstance(e, sansldap.ProtocolError):
        return "ProtocolError"
    if isinstance(e, sansldap.LDAPError):
        return "LDAPError"
    if isinstance(e, NotEnougData):
        return "NotEnoughData"
    return type(e).__name__


# --------------------------------------------------------------------------------------------------------------
# running library calls that may not terminate in reasonable time (C18 is about exactly that): worker processes
# with a per-item watchdog
# --------------------------------------------------------------------------------------------------------------
class TimedOut:
    """Result placeholder for an item whose evaluation was killed by the watchdog."""

    def __init__(self, seconds: float):
        self.seconds = seconds


def guarded_map(fn: t.Callable[[t.Any], t.Any], items: t.Sequence[t.Any], per_item: float = 4.0, nproc: int = 0, max_timeouts: int = 24) -> t.List[t.Any]:
    """[fn(x) for x in items] in forked workers; an item that takes longer than per_item seconds is abandoned
    (its worker is killed and replaced) and yields a TimedOut.  After max_timeouts such items the evaluation stops and
    the remaining items yield TimedOut(-2)."""
    import multiprocessing as mp
    from multiprocessing.connection import wait

    n = len(items)
    if n == 0:
        return []
    nproc = nproc or min(NCPU, max(1, n // 200))
    ctx = mp.get_context("fork")
    results: t.List[t.Any] = [None] * n
    cur = ctx.Array("q", [-1] * nproc, lock=False)      # index being evaluated by worker w
    since = ctx.Array("d", [0.0] * nproc, lock=False)

    def work(w: int, todo: t.List[int], conn: t.Any) -> None:
        batch = []
        for j in todo:
            cur[w] = j
            since[w] = time.time()
            try:
                r = fn(items[j])
            except BaseException as ex:  # noqa: BLE001
                r = ("__exc__", type(ex).__name__, str(ex)[:200])
            batch.append((j, r))
            if len(batch) >= 50:
                conn.send(batch)
                batch = []
        cur[w] = -2
        conn.send(batch + [("done", w)])
        conn.close()

    # contiguous blocks: consecutive items are evaluated by the same worker process, in order (state the library
    # carries across calls - caches, counters - is then exercised by neighbouring items)
    todo: t.List[t.List[int]] = [list(range((w * n) // nproc, ((w + 1) * n) // nproc)) for w in range(nproc)]
    procs: t.List[t.Any] = [None] * nproc
    conns: t.List[t.Any] = [None] * nproc

    def start(w: int) -> None:
        r, s_ = ctx.Pipe(duplex=False)
        p = ctx.Process(target=work, args=(w, todo[w], s_), daemon=True)
        cur[w] = -1
        since[w] = time.time()
        p.start()
        s_.close()
        procs[w], conns[w] = p, r

    for w in range(nproc):
        start(w)
    live = set(range(nproc))
    ntimeouts = 0
    while live:
        ready = wait([conns[w] for w in live], timeout=0.5)
        for c in ready:
            w = conns.index(c)
            try:
                batch = c.recv()
            except (EOFError, OSError):
                batch = None
            if batch is None:      # worker died without saying done
                j = cur[w]
                if j >= 0 and results[j] is None:
                    results[j] = TimedOut(-1.0)
                todo[w] = [k for k in todo[w] if results[k] is None]
                if todo[w]:
                    start(w)
                else:
                    live.discard(w)
                continue
            for j, r in batch:
                if j == "done":
                    live.discard(w)
                else:
                    results[j] = r
        now = time.time()
        for w in list(live):
            j = cur[w]
            if j >= 0 and now - since[w] > per_item:
                procs[w].kill()
                procs[w].join()
                conns[w].close()
                results[j] = TimedOut(now - since[w])
                ntimeouts += 1
                todo[w] = [k for k in todo[w] if results[k] is None]
                if ntimeouts > max_timeouts or not todo[w]:
                    live.discard(w)
                else:
                    start(w)
        if ntimeouts > max_timeouts:
            for w in list(live):
                procs[w].kill()
                procs[w].join()
            live.clear()
    for j in range(n):
        if results[j] is None:
            results[j] = TimedOut(-2.0 if ntimeouts > max_timeouts else -1.0)
    return results


def confirm_timeout(fn: t.Callable[[t.Any], t.Any], item: t.Any, cpu_s: int = 20, wall_s: float = 900.0) -> t.Tuple[bool, t.Any]:
    """An item that exceeded the wall-clock limit of guarded_map is evaluated once more, alone, in a fresh process whose
    budget is CPU time (RLIMIT_CPU): (True, result) if it returns, (False, None) if it uses up the CPU budget.  Wall-clock
    limits alone would turn a loaded machine into verdicts (observed: a 28-character filter "did not return within 4 s"
    while three model-checking runs shared the machine)."""
    import multiprocessing as mp

    ctx = mp.get_context("fork")
    r_conn, w_conn = ctx.Pipe(duplex=False)

    def child() -> None:
        import resource

        resource.setrlimit(resource.RLIMIT_CPU, (cpu_s, cpu_s + 2))
        try:
            res = fn(item)
        except BaseException as ex:  # noqa: BLE001
            res = ("__exc__", type(ex).__name__, str(ex)[:200])
        w_conn.send(res)
        w_conn.close()

    pr = ctx.Process(target=child, daemon=True)
    pr.start()
    w_conn.close()
    got: t.Any = None
    have = False
    if r_conn.poll(wall_s):
        try:
            got = r_conn.recv()
            have = True
        except (EOFError, OSError):
            have = False
    pr.join(5)
    if pr.is_alive():
        pr.kill()
        pr.join()
        if not have:
            raise MachineryError(f"re-evaluation of one item used less than {cpu_s} s of CPU in {wall_s} s of wall time: the machine is overloaded")
    return (True, got) if have else (False, None)


def guarded_events(rep: "Report", fn: t.Callable[[t.Any], t.Any], items: t.Sequence[t.Any], what: str, per_item: float = 4.0, also_prop: str = "") -> t.List[t.Any]:
    """Events fn(item) for a trace specification.  A call that does not return within per_item seconds of wall time is
    evaluated again, alone, under a CPU-time budget (confirm_timeout); if it uses that up as well it is not an event of
    this property's trace but a violation attributed to C18 (parsing cost) and, where given, to also_prop."""
    out = []
    retried = 0
    for item, r in zip(items, guarded_map(fn, items, per_item=per_item)):
        confirmed = False
        if isinstance(r, TimedOut) and retried < 6:
            retried += 1
            done, res = confirm_timeout(fn, item)
            if done:
                r = res
            else:
                confirmed = True
        if isinstance(r, TimedOut) and r.seconds == -2.0:
            rep.violation(f"evaluation-abandoned/{what}", f"too many calls of {what} did not return in time; the remaining inputs were not evaluated", {"first_unevaluated": str(item)[:500]}, prop="C18")
        elif isinstance(r, TimedOut):
            rep.violation(f"call-did-not-return/{what}", f"{what} did not return within {per_item} s of wall time, nor within 20 s of CPU time when evaluated again alone, for {str(item)[:200]!r}", {"item": str(item)[:2000]}, prop="C18")
            if also_prop and confirmed:  # e.g. C15: a parser that does not return is not total
                rep.violation(f"call-did-not-return/{what}", f"{what} did not return (20 s of CPU time) for {str(item)[:200]!r}", {"item": str(item)[:2000]}, prop=also_prop)
        elif isinstance(r, tuple) and len(r) == 3 and r[0] == "__exc__":
            raise MachineryError(f"driver failed on {str(item)[:100]!r}: {r[1]}: {r[2]}")
        else:
            out.append(r)
    return out
