from .iso import run  # noqa: F401
