from . import sess


def run(tier: str, seed: int) -> int:
    return sess.run_prop("C10", tier, seed)
