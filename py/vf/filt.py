"""Filter text engine: C13, C14, C15 (spec/Filter4515.tla, FilterGen.tla, FilterTrace.tla)."""
from __future__ import annotations

import os
import random
import typing as t

from . import common as C
from . import codec, msggen, proj

# (name, MaxDepth, MaxKids, NAttr, NRule, NUnits, MaxValLen, MaxAny, Decor, EscStyles, AllowEmptyAny, LeafKinds)
GEN_QUICK = [
    ("leaves", 0, 2, 3, 2, 25, 1, 1, 0, 5, "FALSE", "KNoSub"),
    ("attrs", 0, 2, 12, 6, 1, 1, 1, 0, 1, "FALSE", "KAll"),
    ("substr", 0, 2, 1, 1, 6, 1, 2, 0, 1, "FALSE", "KEqSub"),
    ("values2", 0, 2, 1, 1, 16, 2, 1, 0, 1, "FALSE", "KEq"),
    ("decor", 1, 2, 1, 1, 1, 1, 1, 1, 1, "FALSE", "KEqPresent"),
    ("decor2", 0, 2, 2, 1, 2, 1, 1, 2, 1, "FALSE", "KAll"),
    ("shapes", 2, 2, 1, 1, 1, 1, 1, 0, 1, "FALSE", "KEq"),
    ("emptyany", 0, 2, 1, 1, 1, 1, 2, 0, 1, "TRUE", "KSub"),
]
GEN_THOROUGH = GEN_QUICK + [
    ("values3", 0, 2, 1, 1, 16, 3, 1, 0, 1, "FALSE", "KEq"),
    ("leaves-all-attrs", 0, 2, 12, 6, 25, 1, 1, 0, 5, "FALSE", "KNoSub"),
    ("substr-wide", 0, 2, 2, 1, 10, 1, 2, 0, 1, "FALSE", "KSub"),
    ("ext-wide", 0, 2, 4, 6, 6, 2, 1, 0, 1, "FALSE", "KExt"),
    ("shapes3", 3, 2, 1, 1, 1, 1, 1, 0, 1, "FALSE", "KEq"),
]
SIM = ("sim", 5, 3, 12, 6, 25, 3, 2, 2, 5, "FALSE", "KAll")
INVS = ["ParseOfUnparse", "StrictWhenUndecorated", "NamesValid"]


def _cfg(path: str, c: t.Tuple[t.Any, ...], max_choices: int = 80) -> None:
    _, d, k, na, nr, nu, mv, ma, de, es, ea, lk = c
    with open(path, "w") as f:
        f.write(f"CONSTANTS\n  MaxDepth = {d}\n  MaxKids = {k}\n  NAttr = {na}\n  NRule = {nr}\n  NUnits = {nu}\n  MaxValLen = {mv}\n  MaxAny = {ma}\n  Decor = {de}\n"
                f"  EscStyles = {es}\n  AllowEmptyAny = {ea}\n  LeafKinds <- {lk}\n  MaxChoices = {max_choices}\nSPECIFICATION Spec\nCHECK_DEADLOCK FALSE\n")
        for i in INVS:
            if not (i == "NamesValid" and False):
                f.write(f"INVARIANT {i}\n")


def generate(rep: C.Report, wd: str, tier: str, seed: int, sims: int) -> t.Dict[str, t.List[t.Any]]:
    cfgs = GEN_QUICK if tier == "quick" else GEN_THOROUGH
    jobs = []
    for c in cfgs:
        p = os.path.join(wd, f"fg-{c[0]}.cfg")
        _cfg(p, c)
        jobs.append(dict(module="FilterGen", cfg=p, wd=wd, workers=1, xss="256m", tag=f"fg{c[0]}", timeout=2400))
    for j in range(sims):
        p = os.path.join(wd, f"fg-sim{j}.cfg")
        _cfg(p, SIM, max_choices=100000)
        jobs.append(dict(module="FilterGen", cfg=p, wd=wd, workers=1, xss="256m", tag=f"fgsim{j}", timeout=2400,
                         extra=["-simulate", f"num={400 if tier == 'quick' else 4000}", "-depth", "600", "-seed", str(seed * 100 + j + 7)]))
    res = C.run_tlc_parallel(jobs)
    out: t.Dict[str, t.List[t.Any]] = {}
    for c, r in zip(cfgs, res):
        rep.add_tlc(f"FilterGen '{c[0]}' (bounded exhaustive derivations; ParseOfUnparse, StrictWhenUndecorated, NamesValid)", r, exhaustive=True)
        out[c[0]] = r.json_cases("CASE")
    simcases: t.List[t.Any] = []
    for r in res[len(cfgs):]:
        simcases += r.json_cases("CASE")
    if sims:
        rep.add_part("FilterGen -simulate (random deep derivations with all pools, decoration and escape styles)", cases=len(simcases))
    out["sim"] = simcases
    return out


def text_of(case: t.Dict[str, t.Any]) -> str:
    return bytes(case["text"]).decode("utf-8", errors="surrogateescape")


def depth_of(tree: t.Dict[str, t.Any]) -> int:
    d, cur = 0, [tree]
    while cur:
        nxt = []
        for x in cur:
            if x.get("k") == "not":
                nxt.append(x["f"])
            elif x.get("k") in ("and", "or"):
                nxt += x["fs"]
        if nxt:
            d += 1
        cur = nxt
    return d


def parse_event(text: str) -> t.Dict[str, t.Any]:
    import sansldap
    from sansldap._filter import FilterSyntaxError

    stripped = text.strip()
    try:
        raw = text.encode("utf-8", errors="surrogateescape")
    except UnicodeEncodeError:
        raw = text.encode("utf-8", errors="surrogatepass")
    try:
        nb = len(stripped.encode("utf-8", errors="surrogatepass"))
    except UnicodeEncodeError:
        nb = 4 * len(stripped)
    e: t.Dict[str, t.Any] = {"op": "parse", "text": list(raw), "res": "ok", "tree": {"k": "none"}, "off": 0, "len": 0, "nchars": len(stripped), "nbytes": nb,
                               "againres": "none", "again": {"k": "none"}, "deep": False}
    big = len(raw) > 1500   # the reference parser in TLC is quadratic in the number of '*' / nesting: long texts are judged for totality and span only
    if big:
        e.update(deep=True, text=e["text"][:64])
    try:
        f = sansldap.LDAPFilter.from_string(text)
    except FilterSyntaxError as ex:
        e["res"] = "FilterSyntaxError"
        e["off"] = ex.offset if isinstance(ex.offset, int) and abs(ex.offset) < 2**31 else -1
        e["len"] = ex.length if isinstance(ex.length, int) and abs(ex.length) < 2**31 else -1
        e["msg"] = str(ex)[:100]
        return e
    except BaseException as ex:  # noqa: BLE001
        e["res"] = type(ex).__name__
        e["msg"] = str(ex)[:100]
        return e
    tree = proj.filter_to_abstract(f)
    if big or depth_of(tree) > 50:   # the JSON reader of TLC nests at most 255 levels: deep trees are compared here, not in TLC
        e.update(deep=True, text=e["text"][:64])
        try:
            again = sansldap.LDAPFilter.from_string(str(f))
            e["againres"] = "ok" if proj.filter_to_abstract(again) == tree else "differs"
        except RecursionError:
            e["againres"] = "RecursionError"
        except BaseException as ex:  # noqa: BLE001
            e["againres"] = type(ex).__name__
        return e
    e["tree"] = tree
    try:
        e["again"] = proj.filter_to_abstract(sansldap.LDAPFilter.from_string(str(f)))
        e["againres"] = "ok"
    except BaseException as ex:  # noqa: BLE001
        e["againres"] = type(ex).__name__
    return e


def hashcons(f: t.Any, seen: t.Optional[t.Dict[str, t.Any]] = None) -> t.Any:
    """The same filter with equal sub-filters represented by ONE object (an application that builds a clause once and uses
    it in several places)."""
    import dataclasses

    import sansldap as s

    seen = {} if seen is None else seen
    if isinstance(f, (s.FilterAnd, s.FilterOr)):
        f = dataclasses.replace(f, filters=[hashcons(x, seen) for x in f.filters])
    elif isinstance(f, s.FilterNot):
        f = dataclasses.replace(f, filter=hashcons(f.filter, seen))
    return seen.setdefault(repr(f), f)


def str_event(tree: t.Dict[str, t.Any], shared: bool = False) -> t.Dict[str, t.Any]:
    import sansldap

    f = proj.filter_from_abstract(tree)
    if shared:
        f = hashcons(f)
    e: t.Dict[str, t.Any] = {"op": "str", "tree": tree, "text": [], "backres": "ok", "back": {"k": "none"}}
    try:
        text = str(f)
        e["text"] = list(text.encode("utf-8", errors="surrogatepass"))
    except BaseException as ex:  # noqa: BLE001
        e["backres"] = "str:" + type(ex).__name__
        return e
    try:
        e["back"] = proj.filter_to_abstract(sansldap.LDAPFilter.from_string(text))
    except BaseException as ex:  # noqa: BLE001
        e["backres"] = type(ex).__name__
    return e


def edited_event(rnd: random.Random) -> t.Dict[str, t.Any]:
    """A filter object that is converted to text, then edited in place (the child lists of AND / OR nodes are ordinary
    lists: an application appends a clause, drops one, replaces one), then converted again: the text form is a function of
    the tree as it is now, whatever was asked of the object before."""
    import sansldap

    inner = {"k": rnd.choice(("or", "and")), "fs": [r_tree(rnd, 0) for _ in range(rnd.randrange(1, 4))]}
    a = {"k": rnd.choice(("and", "or")), "fs": [r_tree(rnd, 0), inner] + [r_tree(rnd, 1) for _ in range(rnd.randrange(0, 2))]}
    if rnd.random() < 0.3:
        a = {"k": "not", "f": a}
    f = proj.filter_from_abstract(a)
    e: t.Dict[str, t.Any] = {"op": "str", "tree": a, "text": [], "backres": "ok", "back": {"k": "none"}}
    try:
        top = f.filter if a["k"] == "not" else f
        for x in rnd.sample([f, top, top.filters[1], top.filters[0]], rnd.randrange(1, 5)):
            str(x)
            repr(x)
        tgt = top.filters[1] if rnd.random() < 0.7 else top
        how = rnd.randrange(4)
        newf = proj.filter_from_abstract(r_tree(rnd, rnd.randrange(0, 2)))
        if how == 0:
            tgt.filters.append(newf)
        elif how == 1 and len(tgt.filters) > 1:
            tgt.filters.pop(rnd.randrange(len(tgt.filters)))
        elif how == 2:
            tgt.filters[rnd.randrange(len(tgt.filters))] = newf
        else:
            tgt.filters.insert(0, newf)
        e["tree"] = proj.filter_to_abstract(f)
        text = str(f)
        e["text"] = list(text.encode("utf-8", errors="surrogatepass"))
    except BaseException as ex:  # noqa: BLE001
        e["backres"] = "str:" + type(ex).__name__
        return e
    try:
        e["back"] = proj.filter_to_abstract(sansldap.LDAPFilter.from_string(text))
    except BaseException as ex:  # noqa: BLE001
        e["backres"] = type(ex).__name__
    return e


# ---- random trees in the domain of C13 (D3, D4) -------------------------------------------------------------
ATTRS = ["dn", "cn", "CN", "Cn", "objectClass", "OBJECTCLASS", "objectclass", "sn", "SN", "member;range-0-1", "userCertificate;binary", "1.2.840.113556.1.4.803", "2.5.4.3;lang-en", "a", "x-y-", "0.9.2342", "o;x-1;y-2"]
RULES = ["caseExactMatch", "1.2.840.113556.1.4.803", "2.5.13.5", "x-rule", "dnSubtreeMatch", "dnQualifierMatch", "dn-1"]


def r_val(rnd: random.Random, nonempty: bool = False) -> t.List[int]:
    n = rnd.choice((0, 1, 1, 2, 3, 5, 12)) if not nonempty else rnd.choice((1, 1, 2, 3, 5, 12))
    k = rnd.randrange(4)
    if k == 0:
        return [rnd.randrange(256) for _ in range(n)]
    if k == 3:  # octets that look like escapes once a backslash is in front of them (a parser that unescapes twice)
        return list(b"".join(rnd.choice((b"\\", b"\\", b"2a", b"5c", b"28", b"29", b"00", b"41", b"5C", b"*", b"x", b"\\5c")) for _ in range(max(n, 1 if nonempty else 0))))
    if k == 1:
        return [rnd.choice(b"()*\\\x00 =:&|!~<>\xff\x80a\n\x7f") for _ in range(n)]
    return list("".join(msggen.r_char(rnd) for _ in range(n)).encode("utf-8"))[: max(n, 1) * 4] if n else []


def r_tree(rnd: random.Random, depth: int) -> t.Dict[str, t.Any]:
    k = rnd.randrange(10 if depth > 0 else 7)
    a = list(rnd.choice(ATTRS).encode())
    if k < 4:
        return {"k": ("eq", "ge", "le", "approx")[k], "attr": a, "v": r_val(rnd)}
    if k == 4:
        return {"k": "present", "attr": a}
    if k == 5:
        hi, hf = rnd.random() < 0.5, rnd.random() < 0.5
        n = rnd.randrange(0, 4)
        if not hi and not hf and n == 0:
            n = 1
        return {"k": "sub", "attr": a, "hasIni": hi, "ini": r_val(rnd, True) if hi else [], "any": [r_val(rnd, True) for _ in range(n)], "hasFin": hf,
                "fin": r_val(rnd, True) if hf else []}
    if k == 6:
        ha, hr = rnd.random() < 0.6, rnd.random() < 0.6
        if not ha and not hr:
            ha = True
        return {"k": "ext", "hasRule": hr, "rule": list(rnd.choice(RULES).encode()) if hr else [], "hasAttr": ha, "attr": a if ha else [], "v": r_val(rnd), "dn": rnd.random() < 0.5}
    if k == 7:
        return {"k": "not", "f": r_tree(rnd, depth - 1)}
    return {"k": "and" if k == 8 else "or", "fs": [r_tree(rnd, depth - 1) for _ in range(rnd.randrange(1, 4))]}


def wide_trees() -> t.List[t.Dict[str, t.Any]]:
    """and / or with MANY children (the random trees stop at three): 100, 256, 257, 300, 1000 siblings, also with the
    nested item last at every level of a 30 x 12 tree."""
    leaf = lambda j: {"k": "eq", "attr": list(b"cn"), "v": list(f"v{j}".encode())}  # noqa: E731
    out: t.List[t.Dict[str, t.Any]] = []
    for n in (100, 256, 257, 300, 1000):
        out.append({"k": "or", "fs": [leaf(j) for j in range(n)]})
        out.append({"k": "and", "fs": [{"k": "not", "f": leaf(0)}] + [{"k": "present", "attr": list(b"objectClass")} for _ in range(n - 1)]})
    tr: t.Dict[str, t.Any] = leaf(0)
    for lvl in range(30):
        tr = {"k": "and" if lvl % 2 else "or", "fs": [leaf(j) for j in range(11)] + [tr]}
    out.append(tr)
    return out


def validate(rep: C.Report, wd: str, events: t.List[t.Any], prop_filter: t.Callable[[str, str], t.Optional[str]], label: str) -> None:
    verdicts, gen, dist = C.validate_traces("FilterTrace", "FilterTrace.cfg", events, wd, tag="ftrace", timeout=2400, xss="256m", min_per_shard=500)
    rep.states += dist
    rep.transitions += gen
    rep.traces += len(events)
    rep.add_part(f"code->spec trace validation (FilterTrace.tla): {label}", events=len(events), verdicts=len(verdicts))
    for idx, prop, clause in verdicts:
        e = events[idx]
        sig = prop_filter(prop, clause) or clause
        if clause == "Idempotent" and e.get("deep") and e.get("againres") == "RecursionError":
            sig = "deep-result-not-printable"
        text = bytes(e["text"]).decode("utf-8", errors="replace")
        rep.violation(sig, f"{clause}: {e['op']} of {text[:120]!r} -> {e.get('res', e.get('backres'))} {e.get('msg', '')}", {k: v for k, v in e.items()}, prop=prop)


KNOWN = {("C14", "EmptyAnyRejected"): "substring-empty-any", ("C15", "SingleArcOrRuleOptions"): "single-arc-oid-or-rule-options"}


def sigmap(prop: str, clause: str) -> t.Optional[str]:
    return KNOWN.get((prop, clause))


# ------------------------------------------------------------------------------------------------------------------
def run_c13(tier: str, seed: int) -> int:
    C.use_repo()
    rep = C.Report("C13", tier, seed)
    rnd = random.Random(seed)
    wd = C.workdir("C13")
    try:
        cases = generate(rep, wd, tier, seed, sims=2 if tier == "quick" else 8)
        trees: t.Dict[str, t.Any] = {}
        for name, cs in cases.items():
            if name == "emptyany":
                continue
            for c in cs:
                trees.setdefault(C.json.dumps(c["tree"], sort_keys=True), c["tree"])
        n_rand = 4000 if tier == "quick" else 60000
        alltrees = list(trees.values()) + [r_tree(rnd, rnd.randrange(0, 5)) for _ in range(n_rand)]
        events = C.guarded_events(rep, str_event, alltrees, "str()/from_string() of a filter")
        # deep chains (the interpreter stack allows ~250 levels of str/from_string)
        for n in (10, 50, 120):
            tr: t.Dict[str, t.Any] = {"k": "eq", "attr": [99, 110], "v": [42, 41]}
            for _ in range(n):
                tr = {"k": "not", "f": tr}
            events.append(str_event(tr))
        # one object used in several places of a tree (leaf and composite)
        for _ in range(300 if tier == "quick" else 3000):
            c = r_tree(rnd, rnd.randrange(1, 3))
            shape = rnd.randrange(4)
            tr = ({"k": "or", "fs": [c, c]} if shape == 0 else {"k": "and", "fs": [c, {"k": "not", "f": c}]} if shape == 1 else
                  {"k": "or", "fs": [{"k": "and", "fs": [c, r_tree(rnd, 0)]}, {"k": "and", "fs": [c, r_tree(rnd, 0)]}]} if shape == 2 else {"k": "not", "f": {"k": "and", "fs": [c, c, c]}})
            events.append(str_event(tr, shared=True))
        # objects converted to text, edited in place, converted again
        for _ in range(300 if tier == "quick" else 3000):
            events.append(edited_event(rnd))
        for wt in wide_trees():
            we = str_event(wt)
            rep.case(str(wt)[:600])
            if len(we["text"]) <= 5000:
                events.append(we)
            elif we["backres"] != "ok" or we["back"] != wt:
                rep.violation("RoundTrip/wide", f"a filter with {len(wt.get('fs', []))} children at the top ({len(we['text'])} characters of text) does not survive "
                              f"str() / from_string(): {we['backres']}", {"children": len(wt.get("fs", [])), "text_head": bytes(we["text"][:200]).decode("utf-8", "replace")})
        for e in events:
            rep.case(str(e["tree"])[:600])
        validate(rep, wd, events, sigmap, "str(filter) must be an RFC 4515 sentence denoting the filter; from_string(str(f)) = f")
        for e in events[:2]:
            rep.sample({"tree": e["tree"], "text": bytes(e["text"]).decode("utf-8", "replace")})
        rep.rule = ("trees: every distinct tree derived by the FilterGen configurations (all node kinds, attribute pool, every value over the adversarial unit alphabet up to the "
                    "bound, substring shapes, extensible forms, composite shapes) plus seeded random trees; distinct by tree")
        rep.assumptions = ["D3: substring components non-empty and at least one; extensible match has attribute or rule", "D4: no matching rule spelled dn"]
        return rep.finish()
    finally:
        C.cleanup(wd)


def run_c14(tier: str, seed: int) -> int:
    C.use_repo()
    import sansldap
    import sansldap._messages as M

    rep = C.Report("C14", tier, seed)
    wd = C.workdir("C14")
    try:
        cases = generate(rep, wd, tier, seed, sims=4 if tier == "quick" else 12)
        allc = [c for cs in cases.values() for c in cs]
        events = []
        codec_events = []
        for c in allc:
            text = text_of(c)
            rep.case(c["text"])
            e = parse_event(text)
            events.append(e)
            if e["res"] == "ok" and len(codec_events) < (3000 if tier == "quick" else 40000):
                # the bytes the parsed filter encodes to must be the RFC 4511 encoding of the tree the grammar denotes
                f = sansldap.LDAPFilter.from_string(text)
                msg = M.SearchRequest(7, [], "dc=x", M.SearchScope.SUBTREE, M.DereferencingPolicy.NEVER, 0, 0, False, f, [])
                ce = codec.codec_event(msg)
                ce["m"]["filter"] = c["tree"]
                codec_events.append(ce)
        for wt in wide_trees():
            wtext = bytes(str_event(wt)["text"]).decode("utf-8", "replace")
            rep.case(wtext[:300])
            try:
                got = proj.filter_to_abstract(sansldap.LDAPFilter.from_string(wtext))
                if got != wt:
                    rep.violation("TreeAsGrammarDenotes/wide", f"a sentence with {len(wt.get('fs', []))} items at the top parses to a different tree", {"text_head": wtext[:200]})
            except Exception as ex:  # noqa: BLE001
                rep.violation("Accepts/wide", f"a valid sentence with {len(wt.get('fs', []))} items at the top ({len(wtext)} characters) is rejected: {type(ex).__name__}: {ex}",
                              {"text_head": wtext[:200]})
        # items that are equal (octet for octet, or after unescaping) are items all the same: and / or are lists, not sets
        for dtext in ("(&(objectClass=person)(objectClass=person))", "(|(cn=a)(sn=b)(cn=a))", "(|(cn=a)(cn=\\61))", "(&(a=b)(!(a=b))(a=b))", "(|(&(a=b)(a=b))(&(a=b)(a=b)))",
                      "(&(cn=*)(cn=*)(cn=*))", "(|(a=b*)(a=b*))"):
            rep.case(dtext)
            try:
                fd = sansldap.LDAPFilter.from_string(dtext)
                codec_events.append(codec.codec_event(M.SearchRequest(8, [], "dc=x", M.SearchScope.SUBTREE, M.DereferencingPolicy.NEVER, 0, 0, False, fd, [])))
            except Exception as ex:  # noqa: BLE001
                rep.violation("Accepts/duplicates", f"the sentence {dtext} is rejected: {type(ex).__name__}: {ex}", {"text": dtext})
        validate(rep, wd, events, sigmap, "from_string(sentence) must give the tree the grammar denotes")
        verdicts, gen, dist = C.validate_traces("CodecTrace", "CodecTrace.cfg", codec_events, wd, tag="c14codec", timeout=2400)
        rep.states += dist
        rep.transitions += gen
        rep.add_part("code->spec: SearchRequest carrying the parsed filter, DecStrict(packed).filter = grammar tree (CodecTrace.tla)", events=len(codec_events), verdicts=len(verdicts))
        for idx, prop, clause in verdicts:
            if clause in ("StrictValue", "StrictDecodes"):
                rep.violation(f"EncodesAsRfc4511/{clause}", f"the filter parsed from a grammar sentence does not encode to the RFC 4511 encoding of the tree the grammar denotes ({clause})",
                              {"m": codec_events[idx]["m"], "packed": codec_events[idx]["packed"][:300]}, prop="C14")
        for c in allc[:2]:
            rep.sample({"text": text_of(c), "tree": c["tree"]})
        rep.rule = ("sentences: every derivation of the FilterGen configurations (escapes in both hex cases, raw UTF-8 and control characters, empty values, options, OIDs, "
                    "every decoration position with 0-2 spaces, composite shapes) plus -simulate deep random derivations; distinct by text")
        rep.assumptions = ["D4: the dn / matching-rule ambiguity of the grammar is not judged", "decoration is what the library documents as tolerated (spaces only)"]
        return rep.finish()
    finally:
        C.cleanup(wd)


EDIT_CHARS = "()&|!=*\\:; \n\t\x00a1.é~<>\udce9"


def edits(text: str, rnd: random.Random, limit: int) -> t.List[str]:
    out = []
    n = len(text)
    pos = list(range(n + 1)) if n <= 24 else sorted(rnd.sample(range(n + 1), 24))
    for p in pos:
        for ch in (EDIT_CHARS if n <= 14 else rnd.sample(EDIT_CHARS, 4)):
            out.append(text[:p] + ch + text[p:])
            if p < n:
                out.append(text[:p] + ch + text[p + 1:])
        if p < n:
            out.append(text[:p] + text[p + 1:])
    if len(out) > limit:
        out = rnd.sample(out, limit)
    return out


def low_stack_parse(text: str, frames_left: int) -> str:
    """Call from_string from a Python stack that has only about `frames_left` frames to spare."""
    import sys

    import sansldap
    from sansldap._filter import FilterSyntaxError

    limit = sys.getrecursionlimit()

    def depth_now() -> int:
        f, n = sys._getframe(), 0
        while f is not None:
            f, n = f.f_back, n + 1
        return n

    def down(n: int) -> str:
        if n > 0:
            return down(n - 1)
        try:
            sansldap.LDAPFilter.from_string(text)
            return "ok"
        except FilterSyntaxError:
            return "FilterSyntaxError"
        except BaseException as ex:  # noqa: BLE001
            return type(ex).__name__

    try:
        return down(max(0, limit - depth_now() - frames_left - 4))
    except RecursionError:
        return "harness-RecursionError"


def run_c15(tier: str, seed: int) -> int:
    C.use_repo()
    rep = C.Report("C15", tier, seed)
    rnd = random.Random(seed)
    wd = C.workdir("C15")
    try:
        cases = generate(rep, wd, tier, seed, sims=1)
        base: t.List[str] = []
        for name in ("leaves", "substr", "decor", "shapes", "emptyany"):
            cs = cases.get(name, [])
            base += [text_of(c) for c in (cs if len(cs) <= 250 else rnd.sample(cs, 250))]
        base += [text_of(c) for c in cases["sim"][:150]]
        texts: t.List[str] = list(base)
        per = 60 if tier == "quick" else 400
        for b in base:
            texts += edits(b, rnd, per)
        # nesting families
        for n in (1, 5, 50, 300, 700, 2000, 20000) + ((100000,) if tier == "thorough" else ()):
            texts += ["(!" * n + "(a=b)" + ")" * n, "(&" * n + "(a=b)" + ")" * n, "(" * n, ")" * n, "(!" * n, "(|(a=b)" * n, "(a=" + "*" * n + ")", "(a=b)" + " " * n]
        # names that are not RFC 4512 valid, and the pinned ones
        texts += ["(0=a)", "(12=a)", "(1.2=a)", "(:rule;opt:=x)", "(cn:0:=x)", "(cn\n=a)", "(cn =a)", "(1..2=a)", "(01.2=a)", "(1.02=a)", "(-a=b)", "(a;=b)", "(a;;b=c)",
                  "(cn:1.2.3;x:=y)", "(cn:dn:2.5.13.5:=x)", "(:dn:=x)", "(cn:=)", "(٣=a)", "(cn٣=a)", "(cn;lang-２=x)", "(1.2२.4=*)", "(a:rule٢:=x)"]
        # Unicode look-alikes of valid names, each right after its ASCII twin (a parser must not remember names loosely)
        conf = {"s": "\u017f", "k": "\u212a", "K": "\u212a", "i": "\u0131", "ss": "\u00df", "ffi": "\ufb03", "fi": "\ufb01", "st": "\ufb06", "a": "\u0430", "e": "\u0435", "o": "\u043e"}
        twins = ["(sn=Smith)", "(kind=x)", "(mass=1)", "(office=x)", "(first=x)", "(cn:caseExactMatch:=x)", "(:caseIgnoreMatch:=y)", "(street=x)", "(ou;lang-es=x)", "(description=x)",
                 "(sn>=a)", "(kn~=a)", "(sn=a*b)", "(sn=*)"]
        for tw in twins:
            texts.append(tw)
            for a_, u_ in conf.items():
                if a_ in tw.split("=")[0]:
                    head, sep, tail = tw.partition("=")
                    texts.append(head.replace(a_, u_, 1) + sep + tail)
                    texts.append(head.replace(a_, u_) + sep + tail)
        # a non-UTF-8 octet carried as a lone surrogate (os.fsdecode, argv), an unpaired high surrogate and a NUL at every
        # position of representative sentences: attribute, option, rule, operator, value, between items
        reps = twins + ["(&(cn=a)(!(sn;x-1=b*c*d)))", "(cn:dn:2.5.13.5:=x)", "(:dn:caseExactMatch:=x)", "(|(a<=1)(b~=2))", "(o=\\2a)"] + rnd.sample(base, min(len(base), 12 if tier == "quick" else 120))
        for tx in reps:
            for p_ in range(len(tx) + 1 if len(tx) <= 40 else 0):
                for ch in ("\udce9", "\ud83d", "\udc80"):
                    texts.append(tx[:p_] + ch + tx[p_:])
                    if p_ < len(tx):
                        texts.append(tx[:p_] + ch + tx[p_ + 1:])
        # an escaped backslash followed by two hex digits, in every kind of item and every substring position
        for hh in ("2a", "28", "29", "5c", "5C", "00", "41", "zz"):
            for tmpl in ("(a=x\\5c{h}y)", "(a=*x\\5c{h}y*)", "(a=x\\5c{h}*)", "(a=*\\5c{h})", "(a=p*q\\5c{h}r*s)", "(a>=\\5c{h})", "(a<=\\5c\\5c{h})", "(a~=\\5c{h})",
                         "(a:=\\5c{h})", "(a:dn:1.2:=x\\5c{h})", "(&(a=*\\5c{h}*)(b=c))", "(!(a=\\5c{h}*))", "(a=\\5c\\{h})"):
                texts.append(tmpl.format(h=hh))
        # a backslash followed by two characters that a lenient converter (int(), bytes.fromhex, unicode digits) would take
        for pair in ("  ", " \t", "\t ", "\r\n", "\x0b\x0c", "+1", "-1", "0x", "1_", " 1", "1 ", "\uff11\uff11", "\u0661\u0662", "a\u00df", "Ａ1", "4\u00b2"):
            for tmpl in ("(cn=\\{p}*smith)", "(cn=john*\\{p}*smith)", "(cn=x\\{p})", "(cn=\\{p})", "(cn:=\\{p}y)", "(cn>=a\\{p})", "(&(cn=*\\{p})(a=b))"):
                texts.append(tmpl.format(p=pair))
        # leading / trailing white space around a complete filter followed by junk (error spans are relative to what?)
        for ws in (" ", "  ", "\t ", "   ", "\n", "\u00a0 "):
            for body in ("(cn=a)b=2", "(cn=a))", "(cn=a)(", "(cn=a)x", "(&(a=b))zz", "(cn=a) (sn=b)"):
                texts += [ws + body, ws + body + " ", body + ws, ws + ws + body + ws]
        # an extensible match whose value is exactly "*" (not a presence test), and the other operators with "*"
        for head in ("cn:dn", "cn:rule", ":rule", "cn:dn:rule", "cn", ":dn:1.2.3", "cn;x-1:dn"):
            for val in ("*", "**", "*a", "a*", "\\2a"):
                texts.append(f"({head}:={val})")
        for op_ in (">=", "<=", "~="):
            texts += [f"(cn{op_}*)", f"(cn{op_}a*b)"]
        for mb in ("caf\u00e9", "\u65e5\u672c\u8a9e", "\U0001f600\U0001f600", "\u00fc" * 6):
            for tmpl in ("(&(cn={m})x)", "(|(o={m})(", "(!(cn={m})y)", "(&(cn={m})(sn=x)z)", "(&(cn={m}))x", "(|(a={m})(b={m})c)", "((cn={m}))", "(&(cn={m})", "(cn={m}))("):
                texts.append(tmpl.format(m=mb))
        # arbitrary text
        alphabet = "()&|!=*\\:; a1.\n\t\x00é\U0001f600𐂀\udfff~<>"
        for _ in range(2000 if tier == "quick" else 40000):
            n = rnd.choice((0, 1, 2, 3, 5, 8, 13, 30))
            texts.append("".join(rnd.choice(alphabet) if rnd.random() < 0.8 else msggen.r_char(rnd) for _ in range(n)))
        seen = set()
        uniq = []
        for tx in texts:
            if tx in seen:
                continue
            seen.add(tx)
            rep.case(tx[:300])
            uniq.append(tx)
        events = C.guarded_events(rep, parse_event, uniq, "LDAPFilter.from_string()", also_prop="C15")
        # the caller's own stack may be deep already (a recursive application, a framework): with N frames left the parser
        # must still answer with a filter or a FilterSyntaxError
        for depth_, left in ((70, 60), (140, 150), (190, 300), (30, 40), (400, 500)):
            for shape in ("(&(|(!", "(!"):
                unit = shape.count("(")
                reps_ = max(1, depth_ // unit)
                tx = shape * reps_ + "(a=b)" + ")" * (unit * reps_)
                rep.case(("low-stack", depth_, left, shape))
                res = low_stack_parse(tx, left)
                if res not in ("ok", "FilterSyntaxError", "harness-RecursionError"):
                    rep.violation(f"Total/low-stack/{res}", f"from_string of a {depth_}-level filter with about {left} interpreter frames left raised {res}", {"text_head": tx[:120], "frames_left": left})
        validate(rep, wd, events, sigmap, "from_string(any text): total, error span inside the input, accepted names valid, result re-parses to itself")
        for e in events[:3]:
            rep.sample({"text": bytes(e["text"]).decode("utf-8", "replace"), "res": e["res"], "off": e["off"], "len": e["len"]})
        rep.rule = ("texts: grammar sentences from FilterGen, every single-character insert/replace/delete (structural, control, non-ASCII characters) at every position of short "
                    "sentences (sampled for long ones), nesting families up to 20000 (100000 thorough) levels, invalid-name probes, random strings including lone surrogates; distinct by text")
        rep.assumptions = ["D8: an error span is inside the input if offset, length >= 0 and offset + length <= max(characters, UTF-8 octets) of the stripped input"]
        return rep.finish()
    finally:
        C.cleanup(wd)
