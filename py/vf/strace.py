"""Code -> spec driver for spec/SessionTrace.tla: seeded random executions of real sessions against a scripted peer.

Scenario families
  chunk   well-formed streams the session accepts, cut in every interesting way (C02, C06, C11)
  garbage streams containing malformed units - complete envelopes with broken interiors, bad outer headers, random
          bytes, byte-level mutations of valid units - before / after valid units, chunked (C05, C06)
  calls   histories of API calls (accepted and refused, also after closure), deliveries and partial drains (C08-C10, C12)
"""
from __future__ import annotations

import copy
import hashlib
import json
import random
import typing as t

from . import common as C
from . import msggen, proj, sess
from .pair import client_inprogress, server_inprogress


def dig(msg: t.Any) -> str:
    return hashlib.blake2b(json.dumps(proj.to_abstract(msg), sort_keys=True).encode(), digest_size=8).hexdigest()


def L(b: t.Union[bytes, bytearray]) -> t.List[int]:
    return list(bytes(b))


def relen(unit: bytes, rnd: random.Random) -> bytes:
    """Re-encode the outer SEQUENCE header of a unit with another definite length form (what another peer may send)."""
    if unit[0] != 0x30:
        return unit
    l0 = unit[1]
    hl = 2 if l0 < 128 else 2 + (l0 & 0x7F)
    n = len(unit) - hl
    k = rnd.choice((1, 2, 3, 4, 4, 4, 5, 8))
    if n >= 256**k:
        return unit
    return b"\x30" + bytes([0x80 | k]) + n.to_bytes(k, "big") + unit[hl:]


def mutate(unit: bytes, rnd: random.Random) -> bytes:
    b = bytearray(unit)
    k = rnd.randrange(7)
    if k == 0 and len(b) > 4:  # flip one interior byte, keep the envelope
        p = rnd.randrange(2, len(b))
        b[p] ^= 1 << rnd.randrange(8)
    elif k == 1 and len(b) > 6:  # an inner length overruns the (unchanged) envelope
        p = rnd.randrange(3, len(b) - 1)
        b[p] = rnd.choice((0x7F, 0x81, 0x82, 0x84, 0xFF))
    elif k == 2 and len(b) > 6:  # zero an interior length
        p = rnd.randrange(3, len(b) - 1)
        b[p] = 0
    elif k == 3:  # wrong outer tag
        b[0] = rnd.choice((0x31, 0x04, 0x60, 0x10, 0xA0, 0x1F))
    elif k == 4 and len(b) > 8:  # drop interior bytes but keep the declared outer length consistent
        p = rnd.randrange(3, len(b) - 2)
        inner = bytes(b[2:p]) + bytes(b[p + 1:])
        if b[1] < 128 and len(inner) < 128:
            b = bytearray(b[:1] + bytes([len(inner)]) + inner)
    elif k == 5 and len(b) > 8:  # an octet of some text / value gets its high bit set (invalid UTF-8 in text fields)
        for _ in range(rnd.choice((1, 1, 2))):
            p = rnd.randrange(4, len(b))
            b[p] |= 0x80
    else:
        b[-1] ^= 0xFF
    return bytes(b)


READER_CONTROL_OID = "1.2.840.99999.7"
_RC: t.Dict[int, t.Any] = {}


def reader_control() -> t.Any:
    """An application control that parses its value with the library's own ASN1Reader - the way PagedResultControl does
    and the way the documentation suggests.  A truncated value makes that reader raise NotEnougData INSIDE a complete
    message: the session must answer with ProtocolError, not wait for more octets."""
    import dataclasses

    import sansldap as s
    from sansldap.asn1 import ASN1Reader

    if id(s) not in _RC:
        @dataclasses.dataclass(frozen=True)
        class ReaderControl(s.LDAPControl):
            control_type: str = dataclasses.field(init=False, repr=False, default=READER_CONTROL_OID)
            value: t.Optional[bytes] = dataclasses.field(init=False, repr=False, default=None)
            size: int = 0
            cookie: bytes = b""

            def get_value(self, options: t.Any) -> t.Optional[bytes]:
                from sansldap.asn1 import ASN1Writer

                w = ASN1Writer()
                with w.push_sequence() as q:
                    q.write_integer(self.size)
                    q.write_octet_string(self.cookie)
                return bytes(w.get_data())

            @classmethod
            def unpack(cls, control_type: str, critical: bool, value: t.Optional[bytes], options: t.Any) -> t.Any:
                r = ASN1Reader(value or b"").read_sequence()
                return cls(critical=critical, size=r.read_integer(), cookie=bytes(r.read_octet_string()))

        _RC[id(s)] = ReaderControl
    return _RC[id(s)]


def reader_control_unit(rnd: random.Random, mid: int, role: str) -> t.Tuple[bytes, t.Dict[str, t.Any]]:
    """A complete, well-framed message that carries the registered control with a truncated / absent / odd value."""
    def tlv(tag: int, c: bytes) -> bytes:
        return bytes([tag]) + (bytes([len(c)]) if len(c) < 128 else bytes([0x81, len(c)])) + c

    val = rnd.choice((b"\x30\x05\x02\x01", b"\x30", b"", b"\x30\x03\x02\x01\x01", b"\x30\x06\x02\x01\x01\x04\x05ab", b"\x02\x01"))
    ctl = tlv(0x30, tlv(4, READER_CONTROL_OID.encode()) + (tlv(4, val) if rnd.random() < 0.85 else b""))
    op = tlv(0x77, tlv(0x80, b"1.2.3")) if role == "server" else tlv(0x78, tlv(10, b"\x00") + tlv(4, b"") + tlv(4, b""))
    return tlv(0x30, tlv(2, bytes([mid % 120 + 1])) + op + tlv(0xA0, ctl)), {"k": "garbage", "id": 0, "valid": False, "dig": ""}


class Recorder:
    def __init__(self, rnd: random.Random):
        self.rnd = rnd
        self.events: t.List[t.Dict[str, t.Any]] = []
        self.tid = 0
        self.s: t.Any = None
        self.role = ""

    def new(self, role: str, family: str) -> None:
        self.tid += 1
        self.role = role
        self.s = sess.new_session(role)
        self.has_reader_control = self.rnd.random() < 0.5
        if self.has_reader_control:
            self.s.register_control(reader_control())
        self.events.append({"ev": "new", "role": role, "tid": self.tid, "family": family})

    # -- observation of the abstract state
    def inprog(self) -> t.Tuple[t.List[int], t.List[int]]:
        s = self.s
        if s.state.name == "CLOSED":
            return [], []
        o = getattr(s, "_outstanding_requests", None)
        q = getattr(s, "_search_requests", None)
        if isinstance(o, (set, frozenset)) and isinstance(q, (set, frozenset)) and all(isinstance(v, int) and abs(v) < 2**31 for v in o | q):
            return sorted(o), sorted(q & o if self.role == "client" else q)
        ids = range(0, 40)
        if self.role == "client":
            a, b = client_inprogress(s, ids)
            return sorted(a), sorted(b)
        return sorted(server_inprogress(s, ids)), []

    def post(self) -> t.Dict[str, t.Any]:
        o, q = self.inprog()
        return {"state": self.s.state.name, "out": o, "srch": q}

    # -- events
    def stream(self, units: t.List[t.Dict[str, t.Any]]) -> None:
        self.events.append({"ev": "stream", "units": units})

    def recv(self, chunk: bytes) -> str:
        rnd = self.rnd
        buf = bytearray(chunk)
        u_arg = rnd.random()
        # what a caller may hand over: its bytearray, bytes, a memoryview of it - also one with a signed item format
        # (array('b'), ctypes buffers)
        arg: t.Any = buf if u_arg < 0.55 else bytes(buf) if u_arg < 0.72 else memoryview(buf) if u_arg < 0.9 else memoryview(buf).cast("b")
        e: t.Dict[str, t.Any] = {"ev": "recv", "chunk": L(chunk), "res": "ok", "msgs": [], "resp": []}
        got: t.List[t.Any] = []
        try:
            got = self.s.receive(arg)
        except Exception as ex:  # noqa: BLE001
            e["res"] = C.exc_kind(ex)
            e["exc"] = f"{type(ex).__name__}: {ex}"[:160]
            r = getattr(ex, "response", None)
            if r:
                e["resp"] = L(r[:100000])  # a notification is tens of octets; a huge one must not choke the validator (its prefix does not decode: verdict)
        for j in range(len(buf)):
            buf[j] = 0xAA
        # ... and may keep a view of its buffer alive while it calls receive() again (a fixed read buffer)
        self.__dict__["_held"] = (memoryview(buf), self.__dict__.get("_held", (None,))[0]) if (arg is buf and rnd.random() < 0.4) else (None,)
        try:
            e["msgs"] = [{"k": proj.kind_of(m), "id": m.message_id if abs(m.message_id) < 2**31 else -7, "dig": dig(m)} for m in got]
        except Exception as ex:  # noqa: BLE001
            e["msgs"] = [{"k": "unprojectable", "id": -1, "dig": str(ex)[:40]}]
        e.update(self.post())
        self.events.append(e)
        return e["res"]

    def call(self, acall: t.Dict[str, t.Any]) -> t.Dict[str, t.Any]:
        before = copy.deepcopy(self.s).data_to_send()
        obs = sess.invoke(self.s, self.role, acall, self.rnd)
        after = copy.deepcopy(self.s).data_to_send()
        emitted = after[len(before):] if after.startswith(before) else b"\xff" + after
        e = {"ev": acall["op"], "k": acall.get("k", "unbind"), "id": acall.get("id", 0), "res": obs["res"],
             "ret": obs["ret"] if isinstance(obs["ret"], int) and abs(obs["ret"]) < 2**31 else -7, "emitted": L(emitted), "exc": obs["exc"]}
        e.update(self.post())
        self.events.append(e)
        return e

    def drain(self, amount: t.Optional[int]) -> bytes:
        got = self.s.data_to_send(amount)
        self.events.append({"ev": "drain", "amount": -1 if amount is None else amount, "got": L(got), "state": self.s.state.name})
        return got


# ------------------------------------------------------------------------------------------------------------------
# scripted peers
# ------------------------------------------------------------------------------------------------------------------
def small_unit(kind: str, mid: int, rnd: random.Random, limit: int = 3000) -> t.Tuple[bytes, t.Dict[str, t.Any]]:
    """A unit of at most `limit` octets (corrupted streams are framed octet by octet by the trace specification; 64 kB
    payloads belong to the well-formed chunking scenarios)."""
    for _ in range(8):
        u = unit_of(sess.concrete(kind, mid, rnd), rnd)
        if len(u[0]) <= limit:
            return u
    return u


def _hdr(b: bytes, p: int) -> t.Tuple[int, int]:
    """(header length, content length) of the short-tag definite-length TLV at p."""
    l0 = b[p + 1]
    if l0 < 0x80:
        return 2, l0
    k = l0 & 0x7F
    return 2 + k, int.from_bytes(b[p + 2:p + 2 + k], "big")


def _tlv_(tag: int, content: bytes) -> bytes:
    n = len(content)
    if n < 128:
        return bytes([tag, n]) + content
    k = (n.bit_length() + 7) // 8
    return bytes([tag, 0x80 | k]) + n.to_bytes(k, "big") + content


def with_trailer(b: bytes, rnd: random.Random) -> bytes:
    """The same LDAPMessage with an element the receiver does not know appended as the LAST component of the envelope or
    of the protocolOp SEQUENCE (RFC 4511 section 4: such elements are ignored)."""
    if b[0] != 0x30 or b[0] & 0x1F == 0x1F:
        return b
    hl, _ = _hdr(b, 0)
    body = b[hl:]
    idh, idl = _hdr(body, 0)
    op_at = idh + idl
    if op_at >= len(body) or body[op_at] & 0x1F == 0x1F:
        return b
    oph, opl = _hdr(body, op_at)
    trailer = rnd.choice((b"\x85\x01x", b"\xa5\x00", b"\xdf\x87\x68\x00", b"\xa5\x04\x85\x02ab"))
    constructed = bool(body[op_at] & 0x20) and body[op_at] != 0x73   # SearchResultReference is a SEQUENCE OF: every element is a URI
    if constructed and rnd.random() < 0.5:   # inside the operation (not for the primitive unbind / present-filter style ops)
        op = _tlv_(body[op_at], body[op_at + oph:op_at + oph + opl] + trailer)
        return _tlv_(0x30, body[:op_at] + op + body[op_at + oph + opl:])
    return _tlv_(0x30, body + trailer)


def unit_of(msg: t.Any, rnd: random.Random, alt: bool = True) -> t.Tuple[bytes, t.Dict[str, t.Any]]:
    import sansldap._messages as M

    b = msg.pack(M.PackingOptions())
    if alt and rnd.random() < 0.12:
        b = with_trailer(b, rnd)
    if alt and rnd.random() < 0.25:
        b = relen(b, rnd)
    return b, {"k": proj.kind_of(msg), "id": msg.message_id, "valid": True, "dig": dig(msg)}


def bad_unit(rnd: random.Random, base: t.Optional[bytes], role: str = "") -> t.Tuple[bytes, t.Dict[str, t.Any]]:
    if role and rnd.random() < 0.12:
        return reader_control_unit(rnd, rnd.randrange(1, 50), role)
    if base is not None and rnd.random() < 0.6:
        b = mutate(base, rnd)
    elif rnd.random() < 0.15:
        _, f = rnd.choice(sess.MAYBE)
        b = f(rnd)
    else:
        _, b = sess.garbage(rnd)
    return b, {"k": "garbage", "id": 0, "valid": False, "dig": ""}


def chunkings(stream: bytes, bounds: t.List[int], rnd: random.Random, how: int) -> t.List[bytes]:
    n = len(stream)
    if how == 0 or n == 0:
        cuts: t.List[int] = []
    elif how == 1:
        cuts = list(range(1, n)) if n <= 600 else sorted(rnd.sample(range(1, n), 300))
    elif how == 2:
        cuts = sorted(rnd.sample(range(1, n), min(n - 1, rnd.randrange(1, 7)))) if n > 1 else []
    elif how == 3:  # cut shortly after the start of every unit (inside tag / length octets / right after the header)
        off = rnd.randrange(1, 7)
        cuts = sorted({b + off for b in bounds if b + off < n})
    elif how == 4:  # complete a unit and carry the start of the next one
        cuts = sorted({b + rnd.randrange(1, 5) for b in bounds[1:] if b + 4 < n} | {rnd.randrange(1, n)}) if n > 1 else []
    else:
        cuts = sorted({b for b in bounds if 0 < b < n})
    pieces = [stream[a:z] for a, z in zip([0] + cuts, cuts + [n])]
    if rnd.random() < 0.3:
        pieces.insert(rnd.randrange(len(pieces) + 1), b"")
    return pieces


def scenario_stream(rec: Recorder, role: str, rnd: random.Random, garbage_p: float, violate_p: float) -> None:
    """The session does what it needs to accept a stream, the peer delivers it in chunks."""
    family = "garbage" if garbage_p > 0 else "chunk"
    rec.new(role, family)
    units: t.List[t.Tuple[bytes, t.Dict[str, t.Any]]] = []
    if role == "client":
        # the client issues requests (drained at once), the peer answers
        outstanding: t.Dict[int, str] = {}
        plan = rnd.choice((["bindReq"], [], ["bindReq"], ["searchReq", "extReq"]))
        for k in plan:
            e = rec.call({"op": "send", "k": k})
            if e["res"] == "ok":
                outstanding[e["ret"]] = k
        rec.drain(None)
        if "bindReq" in plan and outstanding:
            i = next(iter(outstanding))
            m = sess.concrete(rnd.choice(("bindRespOk", "bindRespOk", "bindRespProg")), i, rnd)
            units.append(unit_of(m, rnd))
            del outstanding[i]
            if proj.kind_of(m) == "bindRespProg":
                # deliver now so that the next bind is possible
                rec.stream([u[1] for u in units])
                for p in chunkings(units[0][0], [0], rnd, rnd.randrange(6)):
                    rec.recv(p)
                units = []
                e = rec.call({"op": "send", "k": "bindReq"})
                rec.drain(None)
                if e["res"] == "ok":
                    units.append(unit_of(sess.concrete("bindRespOk", e["ret"], rnd), rnd))
                    rec.stream([units[0][1]])
                    for p in chunkings(units[0][0], [0], rnd, rnd.randrange(6)):
                        rec.recv(p)
                    units = []
        for _ in range(rnd.randrange(0, 5)):
            k = rnd.choice(("searchReq", "extReq", "searchReq"))
            e = rec.call({"op": "send", "k": k})
            if e["res"] == "ok":
                outstanding[e["ret"]] = k
        rec.drain(None)
        for _ in range(rnd.randrange(1, 9)):
            if not outstanding:
                break
            i = rnd.choice(list(outstanding))
            if rnd.random() < violate_p:
                i = rnd.choice((0, 99, i + 50))
            if outstanding.get(i) == "searchReq":
                k = rnd.choice(("entry", "entry", "ref", "done", "entry"))
                if k == "done":
                    del outstanding[i]
            else:
                k = rnd.choice(("extResp", "extResp", "entry", "done")) if rnd.random() < 0.9 else "bindRespOk"
                outstanding.pop(i, None)
            if rnd.random() < violate_p:
                k = rnd.choice(("extReq", "searchReq", "unbind", "notice"))
            units.append(unit_of(sess.concrete(k, i, rnd), rnd))
    else:
        nid = 1
        busy = False
        for _ in range(rnd.randrange(1, 8)):
            k = rnd.choice(("searchReq", "extReq", "searchReq", "bindReq" if not busy or rnd.random() < violate_p else "extReq"))
            if rnd.random() < violate_p:
                k = rnd.choice(("extResp", "done", "unbind", "notice", "bindReq"))
            units.append(unit_of(sess.concrete(k, nid, rnd), rnd))
            busy = True
            nid += rnd.choice((1, 1, 2, 0 if rnd.random() < violate_p else 1))
        if rnd.random() < 0.15:
            units.append(unit_of(sess.concrete("unbind", 0, rnd), rnd))
    if garbage_p > 0 and units:
        units = [u if len(u[0]) <= 3000 else small_unit(u[1]["k"], u[1]["id"], rnd) for u in units]
        for j in range(len(units)):
            if rnd.random() < garbage_p:
                units[j] = bad_unit(rnd, units[j][0], role)
        if rnd.random() < garbage_p:
            units.insert(rnd.randrange(len(units) + 1), bad_unit(rnd, None, role))
    if not units:
        return
    rec.stream([u[1] for u in units])
    stream = b"".join(u[0] for u in units)
    bounds = [0]
    for u in units:
        bounds.append(bounds[-1] + len(u[0]))
    for p in chunkings(stream, bounds[:-1], rnd, rnd.randrange(6)):
        rec.recv(p)
    # after the stream: the session must still refuse / accept further input consistently
    if rnd.random() < 0.3:
        if rnd.random() < 0.5:
            rec.recv(b"")
        else:
            rec.stream([{"k": "garbage", "id": 0, "valid": False, "dig": ""}])
            rec.recv(bytes(rnd.randrange(256) for _ in range(rnd.randrange(1, 5))))


def scenario_bulk(rec: Recorder, role: str, rnd: random.Random) -> None:
    """A long-lived session: many back-to-back units (tens of KiB in total) delivered in fixed-size segments that never
    line up with unit boundaries - what a socket read loop with a fixed buffer does during a large search."""
    rec.new(role, "bulk")
    units: t.List[t.Tuple[bytes, t.Dict[str, t.Any]]] = []
    n = rnd.choice((40, 80, 120, 200))
    if role == "client":
        e = rec.call({"op": "send", "k": "searchReq"})
        rec.drain(None)
        if e["res"] != "ok":
            return
        for _ in range(n):
            units.append(small_unit(rnd.choice(("entry", "entry", "entry", "ref")), e["ret"], rnd, limit=400))
        units.append(small_unit("done", e["ret"], rnd, limit=400))
    else:
        for j in range(n):
            units.append(small_unit(rnd.choice(("searchReq", "extReq")), j + 1, rnd, limit=400))
    rec.stream([u[1] for u in units])
    stream = b"".join(u[0] for u in units)
    seg = rnd.choice((100, 512, 1000, 1460, 4096, 37, 8192))
    for p in range(0, len(stream), seg):
        if rec.recv(stream[p:p + seg]) != "ok":
            break


def tiny_unit(kind: str, mid: int, rnd: random.Random) -> t.Tuple[bytes, t.Dict[str, t.Any]]:
    """A unit of a few dozen octets at most (bursts of thousands of units must stay small for the validator)."""
    import sansldap as s
    import sansldap._messages as M

    dn = "".join(rnd.choice("abcdefgh=,") for _ in range(rnd.randrange(0, 8)))
    if kind == "entry":
        attrs = [M.PartialAttribute("cn", [bytes([rnd.randrange(256)])])] if rnd.random() < 0.5 else []
        m: t.Any = M.SearchResultEntry(mid, [], dn, attrs)
    elif kind == "extReq":
        m = M.ExtendedRequest(mid, [], "1.2." + str(rnd.randrange(100)), None if rnd.random() < 0.5 else bytes([rnd.randrange(256)]))
    else:
        m = M.SearchResultReference(mid, [], ["ldap://" + dn])
    return unit_of(m, rnd, alt=False)


def scenario_burst(rec: Recorder, role: str, rnd: random.Random) -> None:
    """More than a thousand small units in ONE delivery (a 64 KiB socket read full of search entries), as a recorded trace."""
    rec.new(role, "burst")
    n = rnd.choice((1100, 1500))
    units: t.List[t.Tuple[bytes, t.Dict[str, t.Any]]] = []
    if role == "client":
        e = rec.call({"op": "send", "k": "searchReq"})
        rec.drain(None)
        if e["res"] != "ok":
            return
        units = [tiny_unit(rnd.choice(("entry", "entry", "ref")), e["ret"], rnd) for _ in range(n)]
    else:
        units = [tiny_unit("extReq", j + 1, rnd) for j in range(n)]
    rec.stream([u[1] for u in units])
    stream = b"".join(u[0] for u in units)
    cut = rnd.choice((len(stream), len(stream) - 3, len(stream) // 2 + 1))
    rec.recv(stream[:cut])
    if cut < len(stream):
        rec.recv(stream[cut:])


def confluence_checks(rep: C.Report, seed: int) -> None:
    """C02 for streams that END the session in their middle (a termination, a protocol violation or a malformed unit with
    valid units after it): however such a stream is cut, the session must end up in the same state - closed, with a protocol
    error raised at some point.  (What receive() returns before it raises does depend on the cut - the exception replaces
    the return value of that call - so only the end state is compared.)  Evaluated here across deliveries of the same
    stream; the single-trace clauses of SessionTrace.tla cannot see a dependence on the cut."""
    import sansldap._messages as M

    rnd = random.Random(seed * 29 + 11)
    ok = M.LDAPResult(M.LDAPResultCode(0), "", "", None)
    n = 0
    for role in ("server", "client"):
        for variant in range(4):
            def fresh() -> t.Tuple[t.Any, t.List[int]]:
                s = sess.new_session(role)
                ids: t.List[int] = []
                if role == "client":
                    ids = [s.extended_request("1.2.3", None), s.search_request("dc=x")]
                    s.data_to_send()
                return s, ids

            _, ids0 = fresh()
            opts = M.PackingOptions()
            if role == "server":
                first, last = M.ExtendedRequest(1, [], "1.2.3", b"a").pack(opts), M.SearchRequest(3, [], "dc=x", M.SearchScope.BASE, M.DereferencingPolicy.NEVER, 0, 0, False, None, []).pack(opts) \
                    if False else M.ExtendedRequest(3, [], "1.2.4", None).pack(opts)
                middle = (M.UnbindRequest(2, []).pack(opts), M.ExtendedResponse(0, [], M.LDAPResult(M.LDAPResultCode(52), "", "bye", None), sess.NOTICE, None).pack(opts),
                          M.BindRequest(2, [], 3, "", __import__("sansldap").SimpleCredential("p")).pack(opts), b"\x30\x03\x02\x01\x05")[variant]
            else:
                first, last = M.ExtendedResponse(ids0[0], [], ok, None, None).pack(opts), M.SearchResultDone(ids0[1], [], ok).pack(opts)
                middle = (M.ExtendedResponse(0, [], M.LDAPResult(M.LDAPResultCode(52), "", "bye", None), sess.NOTICE, None).pack(opts), M.UnbindRequest(0, []).pack(opts),
                          M.ExtendedResponse(99, [], ok, None, None).pack(opts), b"\x30\x03\x02\x01\x05")[variant]
            stream = first + middle + last
            a, b = len(first), len(first) + len(middle)
            cutsets = [[], [a], [b], [a, b], [a + 1], [b - 1], [1], list(range(1, len(stream)))]
            cutsets += [sorted(rnd.sample(range(1, len(stream)), 2)) for _ in range(4)]
            outcomes = []
            for cuts in cutsets:
                s, _ = fresh()
                raised = ""
                for x, y in zip([0] + cuts, cuts + [len(stream)]):
                    buf = bytearray(stream[x:y])
                    try:
                        s.receive(buf)
                    except Exception as ex:  # noqa: BLE001
                        raised = C.exc_kind(ex)
                        break
                    finally:
                        buf[:] = b"\xaa" * len(buf)
                outcomes.append((raised, s.state.name))
                n += 1
            rep.case(("confluence", role, variant, tuple(outcomes)))
            if len(set(outcomes)) > 1:
                rep.violation(f"outcome-depends-on-chunking/{role}", f"a {role} stream with {('an unbind', 'a notice of disconnection', 'a protocol violation', 'a malformed unit')[variant if role == 'server' else (1, 0, 2, 3)[variant]]} "
                              f"in its middle ends differently depending on how it is cut: {sorted(set(outcomes))}", {"role": role, "variant": variant, "outcomes": [list(o) for o in outcomes], "cuts": cutsets[:8]}, prop="C02")
    rep.traces += n
    rep.add_part("confluence of streams that end the session in their middle (end state compared across 12 deliveries each; judged outside TLC)", deliveries=n)


def burst_checks(rep: C.Report, seed: int) -> None:
    """The same with 1100 and 3000 units, judged here as well (no model is needed for the expected outcome: the stream is
    well-formed and accepted, so exactly the units sent must come back, in order, as equal values, and the session must
    stay open).  Until the intermediates of SessionTrace!Recv were bound once (13.16) this was the only way to judge
    bursts: TLC needed 96 s for a single delivery of 200 units."""
    rnd = random.Random(seed * 17 + 3)
    for role in ("client", "server"):
        for n in (1100, 3000):
            s = sess.new_session(role)
            units: t.List[t.Tuple[bytes, t.Dict[str, t.Any]]] = []
            try:
                if role == "client":
                    mid = s.search_request("dc=x")
                    s.data_to_send()
                    units = [tiny_unit(rnd.choice(("entry", "entry", "ref")), mid, rnd) for _ in range(n)]
                else:
                    units = [tiny_unit("extReq", j + 1, rnd) for j in range(n)]
                stream = b"".join(u[0] for u in units)
                cut = rnd.choice((len(stream), len(stream) - 3))
                got = list(s.receive(stream[:cut]))
                if cut < len(stream):
                    got += list(s.receive(stream[cut:]))
            except Exception as ex:  # noqa: BLE001
                kind = C.exc_kind(ex)
                rep.case(("burst", role, n, kind))
                if kind != "ProtocolError":
                    rep.violation(f"OnlyProtocolError/{role}/burst/{kind}", f"{role}.receive of {n} well-formed units in one delivery raised {type(ex).__name__}: {ex}", {"role": role, "units": n}, prop="C05")
                rep.violation(f"SpuriousError/{role}/burst", f"{role}.receive of {n} well-formed units ({len(b''.join(u[0] for u in units))} octets) in one delivery raised {type(ex).__name__}: {ex}; "
                              "the same stream in smaller pieces is accepted", {"role": role, "units": n}, prop="C02")
                continue
            rep.case(("burst", role, n, len(got)))
            want = [(u[1]["k"], u[1]["id"], u[1]["dig"]) for u in units]
            have = [(proj.kind_of(m), m.message_id, dig(m)) for m in got]
            if len(have) < len(want):
                for prop in ("C02", "C06"):
                    rep.violation(f"NoneLostOrHeldBack/{role}/burst", f"{role}.receive returned {len(have)} of {n} complete units delivered in one call", {"role": role, "units": n}, prop=prop)
            elif have != want:
                rep.violation(f"ExactMessages/{role}/burst", f"{role}.receive of {n} units in one call returned different messages", {"role": role, "units": n}, prop="C02")
            if s.state.name != "OPENED":
                rep.violation(f"StateAfterReceive/{role}/burst", f"{role} is {s.state.name} after a burst of {n} accepted units", {"role": role, "units": n}, prop="C08")
    rep.add_part("bursts of 1100 / 3000 units in one delivery (judged outside TLC as well, see strace.burst_checks)", cases=4)


def scenario_large_then_split(rec: Recorder, role: str, rnd: random.Random) -> None:
    """A unit of more than 64 KiB arriving over several deliveries, then small units whose headers are split by the
    delivery boundaries (only the tag octet, a long-form length cut in the middle)."""
    rec.new(role, "large-then-split")
    units: t.List[t.Tuple[bytes, t.Dict[str, t.Any]]] = []
    import sansldap._messages as M

    big = bytes(rnd.randrange(256) for _ in range(300)) + bytes(rnd.choice((66000, 70000, 140000)))
    if role == "client":
        e = rec.call({"op": "send", "k": "searchReq"})
        rec.drain(None)
        if e["res"] != "ok":
            return
        mid = e["ret"]
        units.append(unit_of(M.SearchResultEntry(mid, [], "cn=big", [M.PartialAttribute("jpegPhoto", [big])]), rnd, alt=False))
        for _ in range(rnd.randrange(3, 9)):
            units.append(small_unit(rnd.choice(("entry", "entry", "ref")), mid, rnd, limit=400))
        units.append(small_unit("done", mid, rnd, limit=400))
    else:
        units.append(unit_of(M.ExtendedRequest(1, [], "1.2.3", big), rnd, alt=False))
        for j in range(rnd.randrange(3, 9)):
            units.append(small_unit(rnd.choice(("searchReq", "extReq")), j + 2, rnd, limit=400))
    rec.stream([u[1] for u in units])
    stream = b"".join(u[0] for u in units)
    n0 = len(units[0][0])
    seg = rnd.choice((16384, 20000, 65536, 4096))
    cuts = list(range(seg, n0, seg))
    pos = n0
    for u in units[1:]:      # every later unit: cut 1, 2 or 3 octets into its header
        cuts.append(pos + rnd.choice((1, 2, 3)))
        pos += len(u[0])
    cuts = sorted({c for c in cuts if 0 < c < len(stream)})
    for a, z in zip([0] + cuts, cuts + [len(stream)]):
        if rec.recv(stream[a:z]) != "ok":
            break


def scenario_regcontrol(rec: Recorder, role: str, rnd: random.Random) -> None:
    """A session with a registered application control receives well-formed units and one complete unit whose control
    value is cut short: a message or a ProtocolError must come out, never silence."""
    rec.new(role, "registered-control")
    if not rec.has_reader_control:
        rec.s.register_control(reader_control())
        rec.has_reader_control = True
    units: t.List[t.Tuple[bytes, t.Dict[str, t.Any]]] = []
    mid = 1
    if role == "client":
        e = rec.call({"op": "send", "k": "extReq"})
        rec.drain(None)
        if e["res"] != "ok":
            return
        mid = e["ret"]
    else:
        for j in range(rnd.randrange(0, 3)):
            units.append(small_unit(rnd.choice(("searchReq", "extReq")), j + 1, rnd, limit=300))
        mid = len(units) + 1
    bad, meta = reader_control_unit(rnd, mid, role)
    if role == "client":   # the response must carry the outstanding id, otherwise the state machine rejects it anyway
        bad = bad.replace(b"\x02\x01" + bytes([mid % 120 + 1]), b"\x02\x01" + bytes([mid]), 1)
    units.append((bad, meta))
    if role == "server" and rnd.random() < 0.6:
        units.append(small_unit("extReq", mid + 1, rnd, limit=300))
    rec.stream([u[1] for u in units])
    stream = b"".join(u[0] for u in units)
    bounds = [0]
    for u in units:
        bounds.append(bounds[-1] + len(u[0]))
    for p_ in chunkings(stream, bounds[:-1], rnd, rnd.choice((0, 0, 2, 5))):
        if rec.recv(p_) != "ok":
            break
    if rec.s.state.name != "CLOSED":
        rec.recv(b"")


def scenario_close_with_pending(rec: Recorder, role: str, rnd: random.Random) -> None:
    """Output is still queued (nothing or only a part of it drained) when the session is closed by what it receives - the
    peer's unbind, a notice of disconnection, a protocol violation, garbage - or by its own unbind.  What was queued by
    successful calls must still come out of data_to_send, exactly once and unchanged."""
    rec.new(role, "close-with-pending")
    ids: t.List[int] = []
    if role == "client":
        for k in rnd.choice((["extReq"], ["searchReq", "extReq"], ["extReq", "extReq", "searchReq"])):
            e = rec.call({"op": "send", "k": k})
            if e["res"] == "ok":
                ids.append(e["ret"])
    else:
        n = rnd.randrange(1, 4)
        units = [small_unit(rnd.choice(("searchReq", "extReq")), j + 1, rnd, limit=300) for j in range(n)]
        rec.stream([u[1] for u in units])
        rec.recv(b"".join(u[0] for u in units))
        for j, u in enumerate(units):
            if u[1]["k"] == "searchReq":
                rec.call({"op": "send", "k": "entry", "id": j + 1})
                if rnd.random() < 0.5:
                    rec.call({"op": "send", "k": "done", "id": j + 1})
            else:
                rec.call({"op": "send", "k": "extResp", "id": j + 1})
    if rnd.random() < 0.6:
        rec.drain(rnd.choice((1, 2, 5, 10, 33)))
    how = rnd.randrange(5)
    partial = None
    if how == 0 or rnd.random() < 0.3:
        # the head of a large unit is already buffered when the session closes: what arrives afterwards is refused like any
        # other input to a closed session (or, if the session is still open, completes the unit)
        import sansldap._messages as M

        mid_ = ids[0] if (role == "client" and ids) else 40
        big = unit_of(M.SearchResultEntry(mid_, [], "cn=big", [M.PartialAttribute("blob", [bytes(rnd.choice((600, 4000)))])]) if role == "client"
                      else M.ExtendedRequest(mid_, [], "1.2.3", bytes(rnd.choice((600, 4000)))), rnd, alt=False)
        cut_ = rnd.choice((3, 50, 300))
        partial = (big, cut_)
        rec.stream([big[1]])
        rec.recv(big[0][:cut_])
    if how == 0:
        rec.call({"op": "unbind"})
        if partial is not None:
            rec.recv(partial[0][0][partial[1]:partial[1] + rnd.choice((1, 20, 100))])
            rec.recv(b"")
    elif partial is not None and role == "server" and rnd.random() < 0.5:
        # the server closes itself with a notice of disconnection
        e_ = rec.call({"op": "send", "k": "notice", "id": 0})
        rec.recv(partial[0][0][partial[1]:partial[1] + rnd.choice((1, 20, 100))])
        rec.recv(b"")
    else:
        if partial is not None:   # complete the buffered unit first
            rec.recv(partial[0][0][partial[1]:])
        if how == 1:
            unit = unit_of(sess.concrete("unbind", 0, rnd), rnd) if role == "server" else unit_of(sess.concrete("notice", 0, rnd), rnd)
        elif how == 2:
            unit = bad_unit(rnd, None)
        elif how == 3:
            unit = unit_of(sess.concrete("extReq" if role == "client" else "extResp", 1, rnd), rnd)   # wrong direction
        else:
            unit = unit_of(sess.concrete("extResp", 77, rnd), rnd) if role == "client" else bad_unit(rnd, None)
        rec.stream([unit[1]])
        rec.recv(unit[0])
    for amount in rnd.choice(((None,), (3, None), (0, 1, None), (10**9,))):
        rec.drain(amount)
    rec.drain(None)


def scenario_deep(rec: Recorder, role: str, rnd: random.Random) -> None:
    """A complete SearchRequest whose filter is nested far beyond the interpreter's recursion limit (600 - 20000 levels of
    not / and / or), alone, after valid units, whole or in pieces.  The library may answer with a message (if it can) or
    with ProtocolError - and then the session is CLOSED."""
    rec.new(role, "deep-nesting")
    units: t.List[t.Tuple[bytes, t.Dict[str, t.Any]]] = []
    if role == "server":
        for j in range(rnd.randrange(0, 3)):
            units.append(small_unit(rnd.choice(("searchReq", "extReq")), j + 1, rnd, limit=300))
    n = rnd.choice((600, 1200, 3000, 20000))
    tag = rnd.choice((0xA2, 0xA0, 0xA1))
    f = b"\x87\x02cn"
    for _ in range(n):
        f = _tlv_(tag, f)
    body = b"\x04\x00\x0a\x01\x00\x0a\x01\x00\x02\x01\x00\x02\x01\x00\x01\x01\x00" + f + b"\x30\x00"
    deep = _tlv_(0x30, b"\x02\x01" + bytes([len(units) + 1]) + _tlv_(0x63, body))
    u_ = rnd.random()
    if u_ < 0.25:     # other units the library may accept or refuse, but only in its own way: a message id of thousands of digits,
        deep = sess._huge_id(rnd)
    elif u_ < 0.4:    # a result code of 5-9 octets
        deep = sess._huge_code(rnd)
    units.append((deep, {"k": "garbage", "id": 0, "valid": False, "dig": ""}))
    rec.stream([u[1] for u in units])
    stream = b"".join(u[0] for u in units)
    bounds = [0]
    for u in units:
        bounds.append(bounds[-1] + len(u[0]))
    for p_ in chunkings(stream, bounds[:-1], rnd, rnd.choice((0, 0, 2, 5))):
        if rec.recv(p_) != "ok":
            break
    # whatever happened: further input is either processed normally or refused because the session is closed
    rec.stream([{"k": "garbage", "id": 0, "valid": False, "dig": ""}])
    rec.recv(b"\x30\x03\x02\x01")
    rec.recv(b"")


def ad_notice(rnd: random.Random) -> t.Tuple[bytes, t.Dict[str, t.Any]]:
    """The NoticeOfDisconnection of MS-ADTS: message id 0, an ExtendedResponse without responseName, and the OID in an
    envelope extension  responseName [10] LDAPOID  after the protocolOp (documented by the library as supported)."""
    res = sess._tlv(10, bytes([rnd.choice((2, 52, 80))])) + sess._tlv(4, b"") + sess._tlv(4, b"server going down")
    body = sess._tlv(2, b"\x00") + sess._tlv(0x78, res) + sess._tlv(0x8A, proj.NOTICE_OID.encode())
    return sess._tlv(0x30, body), {"k": "notice", "id": 0, "valid": True, "dig": "ad-notice"}


def scenario_ad_notice(rec: Recorder, rnd: random.Random) -> None:
    """A client with operations in progress receives Active Directory's notice of disconnection (a designed
    termination: ProtocolError, CLOSED, nothing to send back), possibly after valid responses and chunked."""
    rec.new("client", "ad-notice")
    ids = []
    for k in rnd.choice((["extReq"], ["searchReq", "extReq"], ["bindReq"])):
        e = rec.call({"op": "send", "k": k})
        if e["res"] == "ok":
            ids.append((e["ret"], k))
    rec.drain(None)
    units = []
    if ids and rnd.random() < 0.5:
        i, k = ids[0]
        units.append(unit_of(sess.concrete({"extReq": "extResp", "searchReq": "entry", "bindReq": "bindRespProg"}[k], i, rnd), rnd))
    units.append(ad_notice(rnd))
    rec.stream([{**u[1], "dig": ""} if u[1]["dig"] == "ad-notice" else u[1] for u in units])
    stream = b"".join(u[0] for u in units)
    bounds = [0]
    for u in units:
        bounds.append(bounds[-1] + len(u[0]))
    for p in chunkings(stream, bounds[:-1], rnd, rnd.randrange(6)):
        rec.recv(p)
    rec.recv(b"")
    rec.call({"op": "send", "k": "extReq"})


def scenario_cuts(rec: Recorder, role: str, rnd: random.Random) -> None:
    """One short accepted stream, one trace per two-piece cut (exhaustive over single cuts)."""
    if role == "server":
        msgs = [sess.concrete(rnd.choice(("searchReq", "extReq")), j + 1, rnd) for j in range(rnd.randrange(1, 4))]
        pre: t.List[str] = []
    else:
        pre = ["extReq", "searchReq"]
        msgs = []
    units: t.Optional[t.List[t.Tuple[bytes, t.Dict[str, t.Any]]]] = None
    n = None
    cut = 0
    while True:
        rec.new(role, "cuts")
        if role == "client":
            ids = []
            for k in pre:
                e = rec.call({"op": "send", "k": k})
                ids.append(e["ret"])
            rec.drain(None)
            if units is None:
                msgs = [sess.concrete("extResp", ids[0], rnd), sess.concrete("entry", ids[1], rnd), sess.concrete("done", ids[1], rnd)]
        if units is None:
            units = [unit_of(m, rnd) for m in msgs]
            while sum(len(u[0]) for u in units) > 260:      # keep the exhaustive two-piece cuts small
                big = max(range(len(units)), key=lambda j: len(units[j][0]))
                small = sess.concrete(units[big][1]["k"], units[big][1]["id"], random.Random(rnd.randrange(10**9)))
                cand = unit_of(small, rnd)
                if len(cand[0]) < len(units[big][0]):
                    units[big] = cand
            n = sum(len(u[0]) for u in units)
        stream = b"".join(u[0] for u in units)
        rec.stream([u[1] for u in units])
        rec.recv(stream[:cut])
        rec.recv(stream[cut:])
        cut += 1 if n <= 130 else rnd.randrange(1, 4)
        if cut > n:
            break


def scenario_calls(rec: Recorder, role: str, rnd: random.Random) -> None:
    rec.new(role, "calls")
    outstanding: t.Dict[int, str] = {}
    nid = 1
    for _ in range(rnd.randrange(5, 40)):
        u = rnd.random()
        if u < 0.45:
            if role == "client":
                k = rnd.choice(("bindReq", "searchReq", "extReq", "extReq"))
                e = rec.call({"op": "send", "k": k})
                if e["res"] == "ok":
                    outstanding[e["ret"]] = k
            else:
                ids = list(outstanding) + [0, 99]
                i = rnd.choice(ids)
                k = rnd.choice(("bindRespOk", "bindRespProg", "extResp", "entry", "ref", "done", "notice" if rnd.random() < 0.2 else "extResp"))
                e = rec.call({"op": "send", "k": k, "id": i})
                if e["res"] == "ok" and k not in ("entry", "ref"):
                    outstanding.pop(i, None)
        elif u < 0.5:
            rec.call({"op": "unbind"})
        elif u < 0.75:
            rec.drain(rnd.choice((None, 0, 1, 2, 3, 7, rnd.randrange(0, 300), 10**6)))
        else:
            # the peer says something
            if role == "client":
                ids = list(outstanding) or [1]
                i = rnd.choice(ids + ([0, 77] if rnd.random() < 0.15 else []))
                kind = outstanding.get(i)
                k = rnd.choice(("entry", "ref", "done")) if kind == "searchReq" else rnd.choice(("bindRespOk", "bindRespProg")) if kind == "bindReq" else "extResp"
                if rnd.random() < 0.1:
                    k = rnd.choice(("extReq", "notice", "unbind", "extResp", "done"))
                if not (kind == "searchReq" and k in ("entry", "ref")):
                    outstanding.pop(i, None)
            else:
                k = rnd.choice(("bindReq", "searchReq", "extReq", "extReq", "searchReq"))
                if rnd.random() < 0.07:
                    k = rnd.choice(("unbind", "extResp", "notice"))
                i = nid
                nid += 1
                outstanding[i] = k
            unit = unit_of(sess.concrete(k, i, rnd), rnd)
            if rnd.random() < 0.06:
                unit = bad_unit(rnd, unit[0])
            rec.stream([unit[1]])
            for p in chunkings(unit[0], [0], rnd, rnd.choice((0, 0, 2, 3))):
                rec.recv(p)
    rec.drain(None)


ALL_KINDS = ("bindReq", "searchReq", "extReq", "unbind", "bindRespOk", "bindRespProg", "extResp", "notice", "entry", "ref", "done")


def scenario_anykind(rec: Recorder, role: str, rnd: random.Random) -> None:
    """Every kind of message - also those of the wrong direction - arrives at a session with operations in progress,
    intact or with one text octet damaged: the outcome is a message list or a ProtocolError, nothing else."""
    rec.new(role, "anykind")
    ids = [1]
    if role == "client":
        for k in ("extReq", "searchReq"):
            e = rec.call({"op": "send", "k": k})
            if e["res"] == "ok":
                ids.append(e["ret"])
        rec.drain(None)
    kind = rnd.choice(ALL_KINDS)
    unit = small_unit(kind, rnd.choice(ids), rnd)
    if rnd.random() < 0.7:
        b = bytearray(unit[0])
        for _ in range(rnd.choice((1, 1, 2, 3))):
            b[rnd.randrange(min(6, len(b) - 1), len(b))] |= 0x80
        unit = (bytes(b), {"k": "garbage", "id": 0, "valid": False, "dig": ""})
    rec.stream([unit[1]])
    for p in chunkings(unit[0], [0], rnd, rnd.choice((0, 0, 2, 3))):
        rec.recv(p)


def marked_messages(mid: int) -> t.List[t.Tuple[str, t.Any, t.List[bytes]]]:
    """One message per kind whose text fields are distinct ASCII markers: (kind, message, markers)."""
    import sansldap as s
    import sansldap._messages as M

    ctl = [s.LDAPControl("1.2.MARKC", True, b"v")]
    res = lambda code: M.LDAPResult(M.LDAPResultCode(code), "dc=MARKM", "text MARKD", ["ldap://MARKR"])  # noqa: E731
    out = [
        ("bindReq", M.BindRequest(mid, ctl, 3, "cn=MARKN", s.SimpleCredential("MARKP")), [b"MARKN", b"MARKP", b"MARKC"]),
        ("bindReq", M.BindRequest(mid, [], 3, "cn=MARKN", s.SaslCredential("MARKX", b"cred")), [b"MARKX"]),
        ("searchReq", M.SearchRequest(mid, ctl, "dc=MARKB", M.SearchScope.SUBTREE, M.DereferencingPolicy.NEVER, 0, 0, False,
                                      s.FilterAnd([s.FilterEquality("MARKA", b"v"), s.FilterExtensibleMatch("MARKU", "MARKT", b"v", True), s.FilterPresent("MARKS")]), ["MARKQ"]),
         [b"MARKB", b"MARKA", b"MARKU", b"MARKT", b"MARKS", b"MARKQ"]),
        ("extReq", M.ExtendedRequest(mid, ctl, "1.2.MARKO", b"v"), [b"MARKO", b"MARKC"]),
        ("unbind", M.UnbindRequest(mid, ctl), [b"MARKC"]),
        ("bindRespOk", M.BindResponse(mid, ctl, res(0), b"x"), [b"MARKM", b"MARKD", b"MARKR", b"MARKC"]),
        ("bindRespProg", M.BindResponse(mid, [], res(14), b"x"), [b"MARKM", b"MARKD", b"MARKR"]),
        ("extResp", M.ExtendedResponse(mid, ctl, res(0), "1.2.MARKO", b"v"), [b"MARKM", b"MARKD", b"MARKR", b"MARKO"]),
        ("notice", M.ExtendedResponse(mid, [], res(2), proj.NOTICE_OID, None), [b"MARKM", b"MARKD", b"MARKR"]),
        ("entry", M.SearchResultEntry(mid, ctl, "cn=MARKE", [M.PartialAttribute("MARKF", [b"v"])]), [b"MARKE", b"MARKF", b"MARKC"]),
        ("ref", M.SearchResultReference(mid, [], ["ldap://MARKG", "ldap://MARKH"]), [b"MARKG", b"MARKH"]),
        ("done", M.SearchResultDone(mid, [], res(0)), [b"MARKM", b"MARKD", b"MARKR"]),
    ]
    return out


def scenario_textdamage(rec: Recorder, rnd: random.Random) -> None:
    """Every text field of every kind of message, with one octet replaced by an octet that makes it invalid UTF-8,
    delivered to a client and to a server that have operations in progress (C05: a list or ProtocolError, nothing else)."""
    import sansldap._messages as M

    for role in ("client", "server"):
        for kind, msg, markers in marked_messages(2):
            for mk in markers:
                rec.new(role, "textdamage")
                if role == "client":
                    for k in ("extReq", "searchReq"):
                        rec.call({"op": "send", "k": k})
                    rec.drain(None)
                b = bytearray(msg.pack(M.PackingOptions()))
                pos = bytes(b).find(mk)
                if pos < 0:
                    continue
                b[pos + rnd.randrange(len(mk))] = rnd.choice((0xFF, 0x80, 0xC3, 0xED, 0xF5))
                rec.stream([{"k": "garbage", "id": 0, "valid": False, "dig": ""}])
                for piece in chunkings(bytes(b), [0], rnd, rnd.choice((0, 0, 2))):
                    rec.recv(piece)


def drive(seed: int, n_traces: int) -> t.List[t.Dict[str, t.Any]]:
    rnd = random.Random(seed)
    rec = Recorder(rnd)
    scenario_textdamage(rec, rnd)
    for j in range(n_traces):
        if C.too_many_hangs():
            break
        role = "client" if rnd.random() < 0.5 else "server"
        u = j % 10
        if j % 5 == 4:
            for _ in range(4):
                scenario_anykind(rec, rnd.choice(("client", "server")), rnd)
            scenario_ad_notice(rec, rnd)
        if j % 20 == 7:
            scenario_bulk(rec, role, rnd)
        if j % 40 == 33:
            scenario_large_then_split(rec, role, rnd)
        if j % 100 == 13:
            scenario_burst(rec, role, rnd)
        if j % 10 == 3:
            scenario_regcontrol(rec, role, rnd)
        if j % 10 == 8:
            scenario_close_with_pending(rec, role, rnd)
        if j % 10 == 6:
            scenario_deep(rec, role, rnd)
        if u < 4:
            scenario_stream(rec, role, rnd, garbage_p=0.0, violate_p=0.03)
        elif u < 6:
            scenario_stream(rec, role, rnd, garbage_p=0.35, violate_p=0.05)
        elif u < 9:
            scenario_calls(rec, role, rnd)
        else:
            scenario_cuts(rec, role, rnd)
    return rec.events


# ------------------------------------------------------------------------------------------------------------------
KNOWN_CLAUSES = {("C05", "NotificationUnbindConstructed"): "notification-unbind-constructed/client",
                 ("C08", "RefusedResponseOpens"): "refused-response-opens/server"}


def run_traces(rep: C.Report, wd: str, tier: str, seed: int) -> None:
    n = 400 if tier == "quick" else 6000
    events = drive(seed, n)
    verdicts, gen, dist = C.validate_traces("SessionTrace", "SessionTrace.cfg", events, wd, tag="strace", timeout=2400,
                                            boundary=lambda e: e.get("ev") == "new", xss="256m", min_per_shard=400)
    rep.states += dist
    rep.transitions += gen
    ntr = sum(1 for e in events if e["ev"] == "new")
    rep.traces += ntr
    fam: t.Dict[str, int] = {}
    for e in events:
        if e["ev"] == "new":
            fam[e["family"]] = fam.get(e["family"], 0) + 1
        rep.case((e["ev"], str(e)[:300]), nontrivial=e["ev"] != "new")
    rep.add_part("code->spec trace validation (SessionTrace.tla)", traces=ntr, events=len(events), families=fam, verdicts=len(verdicts))
    report_verdicts(rep, events, verdicts)
    burst_checks(rep, seed)
    confluence_checks(rep, seed)
    for e in events[1:4]:
        rep.sample({k: (v if not isinstance(v, list) or len(v) < 30 else v[:30] + ["..."]) for k, v in e.items()})
    run_test_traces(rep, wd)


def report_verdicts(rep: C.Report, events: t.List[t.Dict[str, t.Any]], verdicts: t.List[t.Tuple[int, str, str]]) -> None:
    # context of an event: its trace
    starts = [j for j, e in enumerate(events) if e["ev"] == "new"]
    import bisect

    for idx, prop, clause in verdicts:
        e = events[idx]
        t0 = starts[bisect.bisect_right(starts, idx) - 1]
        role = events[t0]["role"]
        sig = KNOWN_CLAUSES.get((prop, clause)) or f"{clause}/{role}/{e['ev']}" + (f"/{e.get('k')}" if e["ev"] == "send" else "") + (f"/{e['res']}" if e["ev"] == "recv" and clause in ("OnlyProtocolError",) else "")
        hist = [{k: (v if not isinstance(v, list) or len(v) < 80 else v[:80] + ["..."]) for k, v in ev.items()} for ev in events[t0: idx + 1]][-12:]
        rep.violation(sig, f"{clause} failed at event {idx - t0} of a recorded {role} trace ({events[t0]['family']}): {e['ev']} -> {e.get('res')} {e.get('exc', '')}", {"role": role, "trace_tail": hist}, prop=prop)


def run_test_traces(rep: C.Report, wd: str) -> None:
    """The repository's own session tests, recorded from outside by the pytest plugin vf.testtrace and validated against
    SessionTrace.tla: every clause on every step of every scenario the maintainers wrote."""
    import os
    import subprocess
    import sys

    out = os.path.join(wd, "testtrace.ndjson")
    env = dict(os.environ, VERIF_TESTTRACE_OUT=out, PYTHONPATH=os.path.join(C.VERIF, "py") + os.pathsep + os.path.join(C.REPO, "src"), PYTHONDONTWRITEBYTECODE="1")
    cmd = [sys.executable, "-m", "pytest", "-q", "-x", "-p", "no:cacheprovider", "-p", "vf.testtrace", "--timeout=300", "tests/test_session.py"]
    try:
        p = subprocess.run(cmd, cwd=C.REPO, env=env, stdout=subprocess.PIPE, stderr=subprocess.STDOUT, timeout=600)
    except subprocess.TimeoutExpired as ex:
        raise C.MachineryError("the repository's session tests did not finish under the trace recorder") from ex
    if not os.path.exists(out):
        raise C.MachineryError("trace recorder wrote nothing:\n" + p.stdout.decode(errors="replace")[-1500:])
    events = [json.loads(line) for line in open(out)]
    if p.returncode != 0:
        # a failing test of the repository is not this check's verdict (the brief's mutants pass the suite); the part of
        # the run that was recorded is still validated
        rep.add_part("repository session tests under the recorder", note="pytest exit status %d" % p.returncode)
    if not events:
        return
    verdicts, gen, dist = C.validate_traces("SessionTrace", "SessionTrace.cfg", events, wd, tag="testtrace", timeout=900, shards=1,
                                            boundary=lambda e: e.get("ev") == "new", xss="256m")
    rep.states += dist
    rep.transitions += gen
    ntr = sum(1 for e in events if e["ev"] == "new")
    rep.traces += ntr
    for e in events:
        rep.case((e["ev"], str(e)[:300]), nontrivial=e["ev"] != "new")
    rep.add_part("code->spec: traces of the repository's own tests/test_session.py (recorded by vf.testtrace, SessionTrace.tla)", traces=ntr,
                 events=len(events), verdicts=len(verdicts))
    report_verdicts(rep, events, verdicts)
