"""Message codec engine shared by C01, C03 and C04 (spec/LdapMsg.tla, LdapMsgGen.tla, CodecTrace.tla)."""
from __future__ import annotations

import os
import random
import typing as t

from . import common as C
from . import msggen, proj

GEN_INVARIANTS = ["CanonRoundTrip", "CanonLiberal", "ExplicitDefaultsLiberal", "AltRoundTrip", "StyleRoundTrip", "StrictRejectsFreedoms", "FrameAccountsForAll"]
NMSGS_UPPER = 400  # slices beyond the pool are empty


def _cfg(path: str, *, lo: int, hi: int, max_choices: int, alt_nodes: int, styles: bool, maps: str, emit_canon: bool = True, corrupt: int = 0) -> None:
    n = {"2": ("Len2", "Bool2", "Trail2"), "5": ("Len5", "Bool4", "Trail5")}[maps]
    with open(path, "w") as f:
        f.write("CONSTANTS\n")
        f.write(f"  MaxChoices = {max_choices}\n  AltMaxNodes = {alt_nodes}\n  EmitCanon = {'TRUE' if emit_canon else 'FALSE'}\n  EmitAlt = TRUE\n")
        f.write(f"  Styles = {'TRUE' if styles else 'FALSE'}\n  MiLo = {lo}\n  MiHi = {hi}\n  EmitCorrupt = {'TRUE' if corrupt else 'FALSE'}\n  CorruptMaxLen = {corrupt}\n")
        f.write(f"  LenFormMap <- {n[0]}\n  BoolMap <- {n[1]}\n  TrailMap <- {n[2]}\n")
        f.write("SPECIFICATION Spec\nCHECK_DEADLOCK FALSE\n")
        for inv in GEN_INVARIANTS:
            f.write(f"INVARIANT {inv}\n")


def generate(rep: C.Report, wd: str, tier: str, seed: int, want_alt: bool) -> t.Tuple[t.List[t.Any], t.List[t.Any]]:
    """Run the LdapMsgGen generator (bounded exhaustive, sliced over JVMs; plus -simulate for random mixes)."""
    slices = 12
    step = (NMSGS_UPPER + slices - 1) // slices
    jobs = []
    alt_nodes = (5 if tier == "quick" else 7) if want_alt else 0
    for s in range(slices):
        cfg = os.path.join(wd, f"gen-{s}.cfg")
        _cfg(cfg, lo=s * step + 1, hi=(s + 1) * step, max_choices=24, alt_nodes=alt_nodes, styles=want_alt, maps="2")
        jobs.append(dict(module="LdapMsgGen", cfg=cfg, wd=wd, workers=1, xss="512m", tag=f"gen{s}", timeout=1500))
    nsim = 0
    if want_alt:
        nsim = 4 if tier == "quick" else 12
        for s in range(nsim):
            cfg = os.path.join(wd, f"sim-{s}.cfg")
            _cfg(cfg, lo=1, hi=NMSGS_UPPER, max_choices=100000, alt_nodes=100000, styles=False, maps="5", emit_canon=False)
            num = 700 if tier == "quick" else 5000
            jobs.append(dict(module="LdapMsgGen", cfg=cfg, wd=wd, workers=1, xss="512m", tag=f"sim{s}", timeout=1500,
                             extra=["-simulate", f"num={num}", "-depth", "400", "-seed", str(seed * 1000 + s + 1)]))
    res = C.run_tlc_parallel(jobs)
    canon: t.List[t.Any] = []
    alt: t.List[t.Any] = []
    for j, r in enumerate(res):
        sim = j >= slices
        if not sim:
            rep.add_tlc(f"LdapMsgGen slice {j + 1}/{slices} (exhaustive: canonical + styles + all encodings of messages <= {alt_nodes} nodes)", r, exhaustive=True)
            canon += r.json_cases("CANON")
        alt += r.json_cases("ALT")
    if nsim:
        simres = res[slices:]
        rep.add_part("LdapMsgGen -simulate (random alternative encodings with all forms)", behaviours=sum(len(r.json_cases("ALT")) for r in simres),
                     wall_s=round(max(r.wall for r in simres), 1), exhaustive=False)
    if not canon:
        raise C.MachineryError("generator emitted no canonical case")
    return canon, alt


def unpack_one(data: bytes) -> t.Tuple[t.Any, bytes]:
    import sansldap._messages as M
    from sansldap.asn1 import ASN1Reader

    r = ASN1Reader(data)
    msg = M.unpack_ldap_message(r, options())
    return msg, r.get_remaining_data()


_OPTS: t.List[t.Any] = []


def options() -> t.Any:
    """One PackingOptions object for the whole run: packing / unpacking must not depend on what was packed before with
    the same options (a session keeps one such object for its lifetime)."""
    import sansldap._messages as M

    if not _OPTS:
        o = M.PackingOptions()
        # application-registered alternatives (what register_auth_credential / register_filter do to a session's options)
        for n in proj.OTHER_IDS:
            o.authentication.choices.append(proj.other_class("auth", n))
            if n > 9:
                o.filter.choices.append(proj.other_class("filter", n))
        _OPTS.append(o)
    return _OPTS[0]


def failing_pack(rnd: random.Random) -> None:
    """A pack() that raises half way (a field that cannot be encoded).  Whatever it leaves behind must not leak into
    later messages packed with the same options."""
    import sansldap as s
    import sansldap._messages as M

    bad = "x\ud800"
    k = rnd.randrange(4)
    try:
        if k == 0:
            M.SearchRequest(5, [], "dc=ok", M.SearchScope.BASE, M.DereferencingPolicy.NEVER, 0, 0, False, s.FilterPresent("cn"), ["cn", bad]).pack(options())
        elif k == 1:
            M.SearchResultEntry(5, [], "cn=ok", [M.PartialAttribute("cn", [b"v", "not-bytes"])]).pack(options())  # type: ignore[list-item]
        elif k == 2:
            M.ExtendedResponse(5, [s.LDAPControl("1.2", True, b"v")], M.LDAPResult(M.LDAPResultCode(0), "ok", bad, None), None, None).pack(options())
        else:
            M.BindRequest(5, [], 3, "cn=ok", s.SaslCredential("GSSAPI", "not-bytes")).pack(options())  # type: ignore[arg-type]
    except Exception:  # noqa: BLE001
        return


def sig_of(m: t.Dict[str, t.Any]) -> str:
    return m.get("op", "?")


def scribble(obj: t.Any, depth: int = 0) -> None:
    """The application owns what the library returned: it may change the containers of a decoded message in place (a relay
    appends a control before forwarding).  Nothing the library decodes or encodes LATER may depend on that, so every
    decoded message is scribbled on once its projection has been taken."""
    import dataclasses

    import sansldap as s

    if depth > 6 or not dataclasses.is_dataclass(obj) or isinstance(obj, type):
        return
    for f in dataclasses.fields(obj):
        v = getattr(obj, f.name, None)
        if isinstance(v, list):
            for x in v:
                scribble(x, depth + 1)
            try:
                if f.name == "controls":
                    v.append(s.LDAPControl("9.9.9.9", True, b"scribbled"))
                elif f.name == "values":
                    v.append(b"scribbled")
                elif f.name in ("uris", "referrals") or (f.name == "attributes" and type(obj).__name__ == "SearchRequest"):
                    v.append("scribbled")
                elif f.name == "attributes":
                    v.append(s.PartialAttribute("scribbled", [b"x"]))
                elif f.name == "filters" and v:
                    v.append(v[0])
            except Exception:  # noqa: BLE001  an immutable container is fine too
                pass
        else:
            scribble(v, depth + 1)


def codec_event(msg: t.Any, opts: t.Any = None, enc: str = "") -> t.Dict[str, t.Any]:
    """value -> pack -> unpack -> pack, recorded for CodecTrace."""
    e: t.Dict[str, t.Any] = {"m": proj.to_abstract(msg), "packres": "ok", "packed": [], "decres": "ok", "dec": {"op": "none"},
                               "rest": [], "repacked": []}
    if enc:
        e["enc"] = enc
        return _codec_event_with(msg, e, opts)
    try:
        packed = msg.pack(options())
    except Exception as ex:  # noqa: BLE001
        e["packres"] = C.exc_kind(ex)
        return e
    e["packed"] = list(packed)
    try:
        dec, rest = unpack_one(packed)
        e["dec"] = proj.to_abstract(dec)
        e["rest"] = list(rest)
        e["repacked"] = list(dec.pack(options()))
        scribble(dec)
    except Exception as ex:  # noqa: BLE001
        e["decres"] = C.exc_kind(ex)
    return e


def other_messages(rnd: random.Random) -> t.List[t.Any]:
    """Messages carrying application-registered credential / filter types: every tag number of proj.OTHER_IDS with
    content lengths on both sides of the short / long length form."""
    import sansldap as s
    import sansldap._messages as M

    out: t.List[t.Any] = []
    for n in proj.OTHER_IDS:
        for ln in (0, 5, 127, 128, 300, rnd.choice((255, 256, 1000))):
            val = bytes(rnd.randrange(256) for _ in range(ln))
            out.append(M.BindRequest(rnd.randrange(1, 100), [], 3, "cn=x", proj.other_class("auth", n)(val=val)))
            if n > 9:
                leaf = proj.other_class("filter", n)(val=val)
                f = rnd.choice((leaf, s.FilterNot(leaf), s.FilterAnd([s.FilterPresent("cn"), leaf]), s.FilterOr([s.FilterNot(leaf), s.FilterEquality("a", b"b")])))
                out.append(M.SearchRequest(rnd.randrange(1, 100), [], "dc=x", M.SearchScope.SUBTREE, M.DereferencingPolicy.NEVER, 0, 0, False, f, ["cn"]))
    return out


def many_messages(rnd: random.Random) -> t.List[t.Any]:
    """Messages with MANY elements in every SEQUENCE OF / SET OF (the random generator stops at three): counts on both
    sides of 127/128 and 255/256, total sizes beyond the one- and two-octet length forms."""
    import sansldap as s
    import sansldap._messages as M

    out: t.List[t.Any] = []
    ok = M.LDAPResult(M.LDAPResultCode(0), "", "", None)
    for n in (4, 17, 127, 128, 129, 255, 256, 300):
        names = [f"a{j}" for j in range(n)]
        ctl = [s.LDAPControl(f"1.2.{j}", j % 2 == 0, None if j % 3 == 0 else bytes([j % 256])) for j in range(n)]
        out.append(M.SearchRequest(1, [], "dc=x", M.SearchScope.SUBTREE, M.DereferencingPolicy.NEVER, 0, 0, False, s.FilterPresent("cn"), names))
        out.append(M.SearchRequest(2, ctl, "dc=x", M.SearchScope.BASE, M.DereferencingPolicy.ALWAYS, n, n, True,
                                   s.FilterAnd([s.FilterEquality(a, bytes([j % 256])) for j, a in enumerate(names)]), []))
        out.append(M.SearchRequest(3, [], "", M.SearchScope.ONE_LEVEL, M.DereferencingPolicy.NEVER, 0, 0, False,
                                   s.FilterOr([s.FilterSubstrings("cn", None, [bytes([65 + j % 26]) for j in range(n)], None), s.FilterNot(s.FilterPresent("x"))]), ["*"]))
        out.append(M.SearchResultEntry(4, [], "cn=x", [M.PartialAttribute(a, [b"v"]) for a in names]))
        out.append(M.SearchResultEntry(5, ctl[:3], "cn=y", [M.PartialAttribute("member", [f"cn=u{j},dc=x".encode() for j in range(n)])]))
        out.append(M.SearchResultReference(6, [], [f"ldap://h{j}/dc=x" for j in range(n)]))
        out.append(M.SearchResultDone(7, [], M.LDAPResult(M.LDAPResultCode(10), "", "", [f"ldap://h{j}/" for j in range(n)])))
        out.append(M.ExtendedResponse(8, ctl, ok, "1.2.3", bytes(n)))
    # the flag controls of the library (Show Deleted, Show Deactivated Link) as a peer may send them: WITH a controlValue, empty
    # or not, on every message kind that takes controls; decoding keeps the value, re-encoding reproduces it
    for j, (oid, crit, val) in enumerate((("1.2.840.113556.1.4.417", True, b""), ("1.2.840.113556.1.4.417", False, b"x"), ("1.2.840.113556.1.4.2065", True, b"\x30\x00"),
                                          ("1.2.840.113556.1.4.2065", False, b""), ("1.2.840.113556.1.4.417", True, None))):
        fc = [s.LDAPControl(oid, crit, val)] if val is not None else [s.ShowDeletedControl(crit)]
        out.append(M.SearchRequest(20 + j, fc + [s.LDAPControl("1.2.3", False, None)], "dc=x", M.SearchScope.SUBTREE, M.DereferencingPolicy.NEVER, 0, 0, False, s.FilterPresent("cn"), []))
        out.append(M.SearchResultDone(30 + j, [s.PagedResultControl(False, 0, b"")] + fc, ok))
        out.append(M.ExtendedRequest(40 + j, fc + fc, "1.2.3", None))
    # byte-identical members of a SET OF / SEQUENCE OF are members all the same (attribute values, and / or items, URIs)
    dup = s.FilterEquality("objectClass", b"person")
    out.append(M.SearchRequest(9, [], "dc=x", M.SearchScope.SUBTREE, M.DereferencingPolicy.NEVER, 0, 0, False, s.FilterAnd([dup, dup]), ["cn", "cn"]))
    out.append(M.SearchRequest(10, [], "dc=x", M.SearchScope.SUBTREE, M.DereferencingPolicy.NEVER, 0, 0, False,
                               s.FilterOr([s.FilterEquality("cn", b"a"), s.FilterPresent("sn"), s.FilterEquality("cn", b"a"), s.FilterAnd([dup, s.FilterNot(dup), dup])]), []))
    out.append(M.SearchResultEntry(11, [], "cn=x", [M.PartialAttribute("member", [b"v", b"v", b"w", b"v"]), M.PartialAttribute("member", [b"v"]), M.PartialAttribute("empty", [])]))
    out.append(M.SearchResultReference(12, [], ["ldap://a/", "ldap://a/"]))
    rnd.shuffle(out)
    return out


def _codec_event_with(msg: t.Any, e: t.Dict[str, t.Any], opts: t.Any) -> t.Dict[str, t.Any]:
    import sansldap._messages as M
    from sansldap.asn1 import ASN1Reader

    try:
        packed = msg.pack(opts)
    except Exception as ex:  # noqa: BLE001
        e["packres"] = C.exc_kind(ex)
        return e
    e["packed"] = list(packed)
    try:
        r = ASN1Reader(packed)
        dec = M.unpack_ldap_message(r, opts)
        e["dec"] = proj.to_abstract(dec)
        e["rest"] = list(r.get_remaining_data())
        e["repacked"] = list(dec.pack(opts))
    except Exception as ex:  # noqa: BLE001
        e["decres"] = C.exc_kind(ex)
    return e


def altenc_events(rnd: random.Random, n: int) -> t.List[t.Dict[str, t.Any]]:
    """Round trips under PackingOptions(string_encoding=...) other than UTF-8 (the library supports it; sessions do not use
    it): every message kind with text that the encoding can represent."""
    import sansldap._messages as M
    from sansldap._authentication import AuthenticationOptions
    from sansldap._controls import ControlOptions
    from sansldap._filter import FilterOptions

    out = []
    for enc, alphabet in (("latin-1", "a\u00e9\u00ff ,=x"), ("utf-16-le", "a\u00e9\u20ac\U0001f600 ,="), ("cp1252", "a\u20ac\u00e9 =")):
        opts = M.PackingOptions(string_encoding=enc, authentication=AuthenticationOptions(string_encoding=enc), control=ControlOptions(string_encoding=enc),
                                filter=FilterOptions(string_encoding=enc))
        for _ in range(n):
            m = msggen.r_message(rnd)
            try:
                m = _retext(m, rnd, alphabet)
            except Exception:  # noqa: BLE001  a value the helper cannot rebuild is simply not used for this family
                continue
            out.append(codec_event(m, opts=opts, enc=enc))
    return out


def _retext(obj: t.Any, rnd: random.Random, alphabet: str, depth: int = 0) -> t.Any:
    """The same value with every str replaced by text over `alphabet` (so that the encoding can represent it)."""
    import dataclasses
    import enum

    if isinstance(obj, enum.Enum) or obj is None or isinstance(obj, (bytes, bool, int)):
        return obj
    if isinstance(obj, str):
        if "." in obj and obj.replace(".", "").isdigit():
            return obj       # an OID
        return "".join(rnd.choice(alphabet) for _ in range(min(len(obj), 40) or rnd.randrange(0, 3)))
    if isinstance(obj, list):
        return [_retext(x, rnd, alphabet, depth + 1) for x in obj]
    if dataclasses.is_dataclass(obj):
        if depth >= 200:
            raise ValueError("too deep to re-text")
        return dataclasses.replace(obj, **{f.name: _retext(getattr(obj, f.name), rnd, alphabet, depth + 1) for f in dataclasses.fields(obj) if f.init})
    return obj


def walk_tlv(b: bytes, pos: int, end: int, depth: int = 0) -> t.Optional[str]:
    """Independent check that b[pos:end] is exactly tiled by definite-length TLVs, recursively for constructed ones."""
    while pos < end:
        first = b[pos]
        p = pos + 1
        if first & 0x1F == 0x1F:
            while p < end and b[p] & 0x80:
                p += 1
            p += 1
        if p >= end:
            return f"header at {pos} runs past its parent"
        l0 = b[p]
        p += 1
        if l0 < 0x80:
            ln = l0
        elif l0 == 0x80:
            return f"indefinite length at {pos}"
        else:
            k = l0 & 0x7F
            if p + k > end:
                return f"length octets at {pos} run past the parent"
            ln = int.from_bytes(b[p:p + k], "big")
            p += k
        if p + ln > end:
            return f"element at {pos} (content {ln} octets) overruns its parent by {p + ln - end}"
        if first & 0x20 and depth < 12:
            inner = walk_tlv(b, p, p + ln, depth + 1)
            if inner:
                return inner
        pos = p + ln
    return None


def lazy_events() -> t.List[t.Dict[str, t.Any]]:
    """Values whose mere construction may fail on a changed tree (unnamed result codes of any size): built inside the event,
    a constructor that raises is recorded as a failed pack (C01/PackRaises)."""
    import sansldap._messages as M

    out = []
    for n in (2**32, 2**40 + 1, 2**63, 2**64 + 5, -1, -(2**31) - 1, -(2**40), 16654, 255):
        for build in (lambda: M.SearchResultDone(3, [], M.LDAPResult(M.LDAPResultCode(n), "", "", None)),
                      lambda: M.ExtendedResponse(4, [], M.LDAPResult(M.LDAPResultCode(n), "dc=x", "d", ["ldap://x"]), "1.2.3", b"v"),
                      lambda: M.BindResponse(5, [], M.LDAPResult(M.LDAPResultCode(n), "", "", None), None)):
            try:
                msg = build()
                e = codec_event(msg)
            except Exception as ex:  # noqa: BLE001
                e = {"m": {"op": "unbuildable", "id": {"neg": False, "mag": []}, "controls": []}, "packres": C.exc_kind(ex), "packed": [], "decres": "ok", "dec": {"op": "none"},
                     "rest": [], "repacked": []}
            out.append(e)
    return out


def huge_checks(rep: C.Report) -> None:
    """Elements with 2^24 and more content octets (four length octets).  Their encodings are beyond what TLC can take as a
    trace event, so they are judged here: the octets must be exactly tiled by definite-length TLVs at every level (an
    independent walker, C03) and decode back to the same value (C01)."""
    import sansldap._messages as M
    from sansldap.asn1 import ASN1Reader

    big = bytes(2**24)
    cases = [("one value of 2^24 octets", M.SearchResultEntry(3, [], "cn=x", [M.PartialAttribute("blob", [big])])),
             ("one value of 2^24 + 5 octets", M.ExtendedRequest(4, [], "1.2.3", big + b"12345")),
             ("17 values of 2^20 octets", M.SearchResultEntry(5, [], "cn=y", [M.PartialAttribute("blob", [bytes(2**20 - j) for j in range(17)])])),
             ("one value of 2^24 - 1 octets", M.BindResponse(6, [], M.LDAPResult(M.LDAPResultCode(0), "", "", None), big[:-1]))]
    opts = M.PackingOptions()
    for name, msg in cases:
        rep.case(("huge", name))
        rep.traces += 1
        try:
            packed = msg.pack(opts)
        except Exception as ex:  # noqa: BLE001
            rep.violation("PackRaises/huge", f"{name}: pack raised {type(ex).__name__}: {ex}", {"case": name}, prop="C01")
            continue
        why = walk_tlv(packed, 0, len(packed))
        if why:
            rep.violation("WellFormedBer/huge", f"{name}: the {len(packed)} packed octets are not well-formed definite-length BER: {why}", {"case": name, "head": packed[:24].hex()}, prop="C03")
        try:
            r = ASN1Reader(packed)
            dec = M.unpack_ldap_message(r, opts)
            rest = r.get_remaining_data()
            if dec != msg or proj.to_abstract(dec) != proj.to_abstract(msg) or rest:
                rep.violation("Equal/huge", f"{name}: decode(encode(m)) differs from m ({len(rest)} octets left over)", {"case": name}, prop="C01")
        except Exception as ex:  # noqa: BLE001
            rep.violation("Decodes/huge", f"{name}: the library cannot decode its own {len(packed)} octets: {type(ex).__name__}: {ex}", {"case": name}, prop="C01")
    rep.add_part("elements of 2^24 and more octets (judged outside TLC: independent TLV walker + round trip)", cases=len(cases))


def trace_part(rep: C.Report, wd: str, tier: str, rnd: random.Random, extra_msgs: t.Sequence[t.Any] = ()) -> None:
    n = 2500 if tier == "quick" else 40000
    msgs = list(extra_msgs) + other_messages(rnd) + many_messages(rnd) + [msggen.r_message(rnd) for _ in range(n)]
    events = []
    for m in msgs:
        if C.too_many_hangs():
            break
        if rnd.random() < 0.06:
            failing_pack(rnd)
        events.append(codec_event(m))
    events += altenc_events(rnd, 60 if tier == "quick" else 1500)
    events += lazy_events()
    huge_checks(rep)
    for e in events:
        rep.case((e["m"]["op"], str(e["packed"])[:400]))
    verdicts, gen, dist = C.validate_traces("CodecTrace", "CodecTrace.cfg", events, wd, tag="codec", timeout=1500, xss="512m")
    rep.states += dist
    rep.transitions += gen
    rep.traces += len(events)
    rep.add_part("code->spec trace validation (CodecTrace: DecStrict of every packed message, round trip)", events=len(events), verdicts=len(verdicts))
    for idx, prop, clause in verdicts:
        e = events[idx]
        small = {k: (v if not isinstance(v, list) or len(v) < 400 else v[:400] + ["..."]) for k, v in e.items()}
        rep.violation(f"{clause}/{sig_of(e['m'])}", f"{clause} failed for a recorded {e['m']['op']} ({len(e['packed'])} octets)", small, prop=prop)
    for e in events[:2]:
        rep.sample({"m": e["m"], "packed_hex": bytes(e["packed"]).hex()[:200]})


# ------------------------------------------------------------------------------------------------------------------
def run_c01(tier: str, seed: int) -> int:
    C.use_repo()
    rep = C.Report("C01", tier, seed)
    rnd = random.Random(seed)
    wd = C.workdir("C01")
    try:
        canon, _ = generate(rep, wd, tier, seed, want_alt=False)
        for cs in canon:
            m, enc = cs["m"], bytes(cs["enc"])
            rep.case(("canon", cs["mi"]))
            rep.traces += 1
            try:
                dec, rest = unpack_one(enc)
                d = proj.to_abstract(dec)
                re_enc = dec.pack(options())
            except Exception as ex:  # noqa: BLE001
                rep.violation(f"Decodes/{sig_of(m)}", f"decoding the RFC encoding of pool message {cs['mi']} raised {type(ex).__name__}: {ex}", cs)
                continue
            if d != m:
                rep.violation(f"Equal/{sig_of(m)}", f"pool message {cs['mi']} decoded to a different value", {"case": cs, "decoded": d})
            if rest:
                rep.violation(f"ConsumesExactly/{sig_of(m)}", f"{len(rest)} octets left after decoding pool message {cs['mi']}", cs)
            if m["op"] != "unbindRequest" and re_enc != enc:
                rep.violation(f"Reencodes/{sig_of(m)}", f"re-encoding the decoded pool message {cs['mi']} gives different octets", {"case": cs, "reencoded": list(re_enc)})
        rep.add_part("spec->code replay of canonical encodings", cases=len(canon))
        trace_part(rep, wd, tier, rnd)
        rep.rule = ("spec->code: every message of the LdapMsgGen pool (base messages x one-field sweeps over boundary lengths, integers, result codes, UTF-8, "
                    "filters, controls), distinct by pool index; code->spec: seeded random message values, distinct by (operation, encoding)")
        rep.assumptions = ["D1: known control OIDs only through their classes", "D12: text without lone surrogates, enum fields take members",
                           "trusted: vf/proj.py projection, TLC", "for unbindRequest the octet comparison is left to C03 (known finding: constructed form)"]
        return rep.finish()
    finally:
        C.cleanup(wd)


def run_c03(tier: str, seed: int) -> int:
    C.use_repo()
    rep = C.Report("C03", tier, seed)
    rnd = random.Random(seed)
    wd = C.workdir("C03")
    try:
        canon, _ = generate(rep, wd, tier, seed, want_alt=False)
        differing = []
        for cs in canon:
            rep.case(("canon", cs["mi"]))
            rep.traces += 1
            msg = proj.from_abstract(cs["m"])
            try:
                out = msg.pack(options())
            except Exception as ex:  # noqa: BLE001
                rep.violation(f"PackRaises/{sig_of(cs['m'])}", f"pack of pool message {cs['mi']} raised {type(ex).__name__}: {ex}", cs)
                continue
            if out != bytes(cs["enc"]):
                differing.append(msg)  # not necessarily wrong (C03 does not demand minimal lengths): DecStrict judges it below
        rep.add_part("spec->code replay: pack(pool message) compared with the canonical RFC encoding", cases=len(canon), differing=len(differing))
        trace_part(rep, wd, tier, rnd, extra_msgs=differing)
        rep.rule = ("every pool message of LdapMsgGen packed by the library and compared with Enc(m); every packed message (pool messages whose octets differ, "
                    "and seeded random values) decoded by the independent strict decoder DecStrict in TLC")
        rep.assumptions = ["SIZE constraints of the ASN.1 (e.g. Referral SIZE (1..MAX)) are not part of the strictness facts the property lists",
                           "D1, D12", "trusted: vf/proj.py projection, TLC"]
        return rep.finish()
    finally:
        C.cleanup(wd)


def run_c04(tier: str, seed: int) -> int:
    C.use_repo()
    import sansldap
    import sansldap._messages as M

    rep = C.Report("C04", tier, seed)
    wd = C.workdir("C04")
    try:
        _, alt = generate(rep, wd, tier, seed, want_alt=True)
        n_sess = 0
        n_cut = 0
        crnd = random.Random(seed * 31 + 4)
        for cs in alt:
            m, enc = cs["m"], bytes(cs["enc"])
            rep.case(("alt", cs["mi"], cs["xd"], tuple(cs["ch"])))
            rep.traces += 1
            what = f"pool message {cs['mi']} ({m['op']}) in alternative encoding ch={cs['ch']} xd={cs['xd']}"
            try:
                dec, rest = unpack_one(enc)
                d = proj.to_abstract(dec)
            except Exception as ex:  # noqa: BLE001
                rep.violation(f"Accepts/{sig_of(m)}/{type(ex).__name__}", f"{what} is rejected: {type(ex).__name__}: {ex}", cs)
                continue
            if d != m:
                rep.violation(f"SameValue/{sig_of(m)}", f"{what} decodes to a different value", {"case": cs, "decoded": d})
            if rest:
                rep.violation(f"ConsumesExactly/{sig_of(m)}", f"{what}: {len(rest)} octets left", cs)
            if m["op"] in ("bindRequest", "searchRequest", "extendedReq") and len(cs["ch"]) % 3 == 0:
                n_sess += 1
                srv = sansldap.LDAPServer()
                try:
                    got = srv.receive(enc)
                    if len(got) != 1 or proj.to_abstract(got[0]) != m:
                        rep.violation(f"ReceiveSameValue/{sig_of(m)}", f"{what}: LDAPServer.receive returned {len(got)} message(s) / a different value", cs)
                except Exception as ex:  # noqa: BLE001
                    rep.violation(f"ReceiveAccepts/{sig_of(m)}/{type(ex).__name__}", f"{what}: LDAPServer.receive raised {type(ex).__name__}: {ex}", cs)
                # a conforming peer's octets arrive in whatever segments the transport makes of them: the same encoding cut
                # in two at every position (at eight positions for long ones) must give the same single message
                if n_sess % 16 == 0:
                    cuts = list(range(1, len(enc))) if len(enc) <= 48 else sorted(crnd.sample(range(1, len(enc)), 8))
                elif n_sess % 2 == 0:  # the first octets hold the outer and the first inner headers, whatever follows
                    cuts = sorted(crnd.sample(range(1, min(len(enc), 12)), 2))
                else:
                    cuts = []
                for p_ in cuts:
                    n_cut += 1
                    srv = sansldap.LDAPServer()
                    try:
                        a_ = srv.receive(enc[:p_])
                        b_ = srv.receive(enc[p_:])
                        if a_ or len(b_) != 1 or proj.to_abstract(b_[0]) != m:
                            rep.violation(f"ReceiveChunkedSameValue/{sig_of(m)}", f"{what} cut at octet {p_}: receive returned {len(a_)} + {len(b_)} message(s) / a different value", {"case": cs, "cut": p_})
                            break
                    except Exception as ex:  # noqa: BLE001
                        rep.violation(f"ReceiveChunkedAccepts/{sig_of(m)}/{type(ex).__name__}", f"{what} cut at octet {p_}: LDAPServer.receive raised {type(ex).__name__}: {ex}", {"case": cs, "cut": p_})
                        break
        # the value of the paged-results control is BER of its own (SEQUENCE { size, cookie }): the same freedoms apply INSIDE it
        n_inner = 0
        for size, cookie in ((0, b""), (5, b"ck"), (2**31 - 1, bytes(130))):
            for lf_outer in (0, 3):
                for lf_inner in (0, 1, 3):
                    for tr in (b"", b"\x85\x01x", b"\xc7\x01A", b"\xa5\x00", b"\x85\x01x\x04\x01y"):
                        def L_(n: int, form: int) -> bytes:
                            if form == 0 and n < 128:
                                return bytes([n])
                            k = 4 if form == 3 else max(1, (n.bit_length() + 7) // 8)
                            return bytes([0x80 | k]) + n.to_bytes(k, "big")

                        def T_(tag: int, c: bytes, form: int) -> bytes:
                            return bytes([tag]) + L_(len(c), form) + c

                        ic = size.to_bytes((size.bit_length() + 8) // 8 or 1, "big")
                        inner = T_(0x30, T_(2, ic, lf_inner) + T_(4, cookie, lf_inner) + tr, lf_inner)
                        ctl = T_(0x30, T_(4, b"1.2.840.113556.1.4.319", 0) + T_(1, b"\xff", 0) + T_(4, inner, lf_outer), lf_outer)
                        enc = T_(0x30, T_(2, b"\x07", 0) + T_(0x77, T_(0x80, b"1.2.3", 0), 0) + T_(0xA0, ctl, lf_outer), lf_outer)
                        want = proj.to_abstract(M.ExtendedRequest(7, [sansldap.PagedResultControl(True, size, cookie)], "1.2.3", None))
                        n_inner += 1
                        rep.case(("paged-inner", size, lf_outer, lf_inner, tr))
                        what = f"ExtendedRequest with a paged-results control whose value uses length form {lf_inner} and trailing element {tr.hex() or 'none'} inside"
                        try:
                            dec, rest = unpack_one(enc)
                            if proj.to_abstract(dec) != want or rest:
                                rep.violation("SameValue/pagedValue", f"{what} decodes to a different value", {"enc": enc.hex()})
                        except Exception as ex:  # noqa: BLE001
                            rep.violation(f"Accepts/pagedValue/{type(ex).__name__}", f"{what} is rejected: {type(ex).__name__}: {ex}", {"enc": enc.hex()})
        rep.add_part("encoding freedoms inside the paged-results control value (hand-built, 90 cases)", cases=n_inner)
        rep.add_part("spec->code replay of alternative encodings (unpack_ldap_message; requests also through LDAPServer.receive)", cases=len(alt), via_session=n_sess, via_session_in_two_chunks=n_cut)
        for cs in alt[:2] + alt[-1:]:
            rep.sample({"mi": cs["mi"], "op": cs["m"]["op"], "xd": cs["xd"], "choices": cs["ch"], "enc_hex": bytes(cs["enc"]).hex()[:160]})
        rep.rule = ("TLC enumerates LdapMsgGen: for every pool message all 300 uniform styles (5 length forms x 4 TRUE octets x 15 trailers: three use the high tag number form with one number octet (31..127), one follows such an element with a long unknown element whose content holds look-alikes of the defined optional components, four reuse the number of a defined optional component in another tag class, two put universal OCTET STRING / BOOLEAN elements behind an unknown one) with and without explicit "
                    "defaults; for small messages every per-node combination of {minimal, 0x84} lengths x {FF, 01} x {none, [1000]}; -simulate draws random per-node "
                    "mixes of all forms for all messages.  Distinct by (message, explicit-defaults, choice sequence)")
        rep.assumptions = ["D9: trailing elements carry tags the sequence does not define", "non-minimal INTEGER contents are not a BER freedom",
                           "TLC first checks DecLiberal(EncAlt(m, ch)) = m on the specification itself"]
        return rep.finish()
    finally:
        C.cleanup(wd)


def generate_corruptions(rep: C.Report, wd: str, tier: str) -> t.List[t.Any]:
    """TLC enumerates every single-octet corruption (set / delete / insert) of the canonical encodings of the short pool messages."""
    slices = 12
    step = (NMSGS_UPPER + slices - 1) // slices
    jobs = []
    maxlen = 30 if tier == "quick" else 64
    for s_ in range(slices):
        cfg = os.path.join(wd, f"cor-{s_}.cfg")
        _cfg(cfg, lo=s_ * step + 1, hi=(s_ + 1) * step, max_choices=0, alt_nodes=0, styles=False, maps="2", emit_canon=False, corrupt=maxlen)
        jobs.append(dict(module="LdapMsgGen", cfg=cfg, wd=wd, workers=1, xss="512m", tag=f"cor{s_}", timeout=2400))
    res = C.run_tlc_parallel(jobs)
    out: t.List[t.Any] = []
    for j, r in enumerate(res):
        rep.add_tlc(f"LdapMsgGen slice {j + 1}/{slices}: every single-octet corruption of canonical encodings <= {maxlen} octets (FrameAccountsForAll)", r, exhaustive=True)
        out += r.json_cases("CORRUPT")
    return out
