"""C05 / C06: spec -> code replay of the single-octet corruptions TLC enumerates (LdapMsgGen.Corrupt).

Every corrupted PDU is delivered to a real server session and to a real client session that has matching operations in
progress, whole / octet by octet / cut at the corrupted octet, optionally preceded by a valid message and followed by
one.  The expectation comes from TLC: the number of complete outer TLVs the independent framer finds (units, why) and
whether the octets still are a valid message of the same value.  Judged: the outcome is a list or ProtocolError
(C05), a normal return accounts for every complete unit (C06), after ProtocolError the session is CLOSED, refuses
input and calls and queues nothing (C05), a corruption that leaves the value intact is accepted (C04).
"""
from __future__ import annotations

import random
import typing as t

from . import common as C
from . import proj


def prepared(role: str) -> t.Tuple[t.Any, bytes, bytes]:
    """A session with operations in progress, a valid unit it accepts before and one after the corrupted one."""
    import sansldap as s
    import sansldap._messages as M

    o = M.PackingOptions()
    if role == "server":
        srv = s.LDAPServer()
        before = M.ExtendedRequest(40, [], "1.2.3", None).pack(o)
        after = M.SearchRequest(41, [], "", M.SearchScope.BASE, M.DereferencingPolicy.NEVER, 0, 0, False, s.FilterPresent("cn"), []).pack(o)
        return srv, before, after
    c = s.LDAPClient()
    c.extended_request("1.2.3")      # id 1
    c.search_request("dc=x")         # id 2
    c.extended_request("1.2.3.4")    # id 3
    c.search_request("dc=y")         # id 4
    c.data_to_send()
    res = M.LDAPResult(M.LDAPResultCode(0), "", "", None)
    before = M.SearchResultEntry(4, [], "cn=a", []).pack(o)
    after = M.SearchResultEntry(4, [], "cn=b", []).pack(o)
    return c, before, after


def deliver(sess: t.Any, pieces: t.List[bytes]) -> t.Tuple[str, int, str]:
    import sansldap

    n = 0
    for p in pieces:
        try:
            n += len(sess.receive(bytearray(p)))
        except sansldap.ProtocolError as ex:
            return "ProtocolError", n, str(ex)[:100]
        except Exception as ex:  # noqa: BLE001
            return type(ex).__name__, n, str(ex)[:100]
    return "ok", n, ""


def after_error(sess: t.Any, role: str) -> t.List[str]:
    import sansldap

    problems = []
    if sess.state.name != "CLOSED":
        problems.append(f"state is {sess.state.name} after ProtocolError")
    sess.data_to_send()
    try:
        sess.receive(b"")
        problems.append("receive accepted input after ProtocolError")
    except sansldap.ProtocolError:
        pass
    except Exception as ex:  # noqa: BLE001
        problems.append(f"receive after ProtocolError raised {type(ex).__name__}")
    try:
        if role == "server":
            sess.extended_response(40)
        else:
            sess.extended_request("1.2")
        problems.append("a send call was accepted after ProtocolError")
    except sansldap.LDAPError:
        pass
    except Exception as ex:  # noqa: BLE001
        problems.append(f"a send call after ProtocolError raised {type(ex).__name__}")
    if sess.data_to_send():
        problems.append("bytes were queued after ProtocolError")
    return problems


def replay(rep: C.Report, cases: t.List[t.Any], seed: int) -> None:
    rnd = random.Random(seed)
    n_runs = 0
    for cs in cases:
        data = bytes(cs["bytes"])
        request = cs["op"] in ("bindRequest", "searchRequest", "extendedReq", "unbindRequest")
        role = "server" if request else "client"
        if rnd.random() < 0.15:
            role = "client" if role == "server" else "server"   # also the wrong side
        pos = min(cs["pos"], len(data))
        variants = [("whole", [data]), ("octets", [data[j:j + 1] for j in range(len(data))]), ("cut", [data[:pos], data[pos:]])]
        mode = rnd.randrange(3)   # 0: alone, 1: valid unit before, 2: valid unit before and after
        name, pieces = variants[rnd.randrange(3)] if len(cases) > 20000 else (None, None)
        for vname, vpieces in (variants if name is None else [(name, pieces)]):
            sess, before, after = prepared(role)
            seq = ([before] if mode >= 1 else []) + vpieces + ([after] if mode == 2 else [])
            res, nret, exc = deliver(sess, seq)
            n_runs += 1
            what = f"{role} / {cs['op']} pool message {cs['mi']}, octet {cs['pos']} {cs['kind']} {cs['v']:#04x} ({vname}, {'alone' if mode == 0 else 'after a valid unit' if mode == 1 else 'between valid units'})"
            if res not in ("ok", "ProtocolError"):
                rep.violation(f"OnlyProtocolError/{role}/{res}", f"{what}: receive raised {res}: {exc}", {"case": cs, "role": role, "chunking": vname}, prop="C05")
                continue
            if res == "ok":
                # the independent framer: complete units among the octets delivered (valid neighbours are complete units)
                units = cs["units"] + (1 if mode >= 1 else 0)
                if mode == 2 and cs["why"] == "end":
                    units += 1
                if mode == 2 and cs["why"] != "end":
                    continue   # the following valid unit is swallowed by / glued to the corrupted tail: framing of the whole stream is not what TLC computed
                if nret != units:
                    rep.violation(f"CountMatches/{role}/{'fewer' if nret < units else 'more'}", f"{what}: receive returned {nret} message(s), the delivered octets contain {units} complete unit(s)",
                                  {"case": cs, "role": role, "chunking": vname, "returned": nret, "units": units}, prop="C06")
            else:
                for pr in after_error(sess, role):
                    rep.violation(f"FailClosed/{role}/{pr.split(' after')[0][:40]}", f"{what}: {pr}", {"case": cs, "role": role, "chunking": vname}, prop="C05")
                if cs["sameValue"] and mode == 0 and role == "server" and request:
                    rep.violation(f"ValidFormRejected/{cs['op']}", f"{what}: the octets still are a valid encoding of the same message but were rejected: {exc}", {"case": cs}, prop="C04")
        rep.case(("corrupt", cs["mi"], cs["pos"], cs["kind"], cs["v"]))
    rep.traces += n_runs
    rep.add_part("spec->code replay of TLC-enumerated single-octet corruptions on prepared client / server sessions", cases=len(cases), deliveries=n_runs)
    for cs in cases[:: max(1, len(cases) // 3)][:3]:
        rep.sample({"corruption": {k: cs[k] for k in ("mi", "op", "pos", "kind", "v", "units", "why", "stillValid")}, "hex": bytes(cs["bytes"]).hex()})
