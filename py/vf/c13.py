from .filt import run_c13 as run  # noqa: F401
