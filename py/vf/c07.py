"""C07 - BER primitives agree with the arithmetic oracle of Ber.tla in both directions.

spec -> code : TLC enumerates BerGen (every content octet string up to the bound, with the value X.690 assigns to it,
               its canonical form, and the same octets read as a length / as a tag number) and checks the oracle's own
               theorems in every state; each emitted case is executed on ASN1Reader / ASN1Writer.
code -> spec : a seeded random driver exercises write_* / read_* / peek_header / nested sequences and sets with big
               values; BerTrace.tla judges every recorded call.
"""
from __future__ import annotations

import random
import typing as t

from . import common as C


def _tlv(tag: bytes, content: bytes) -> bytes:
    n = len(content)
    if n < 128:
        l = bytes([n])
    else:
        b = n.to_bytes((n.bit_length() + 7) // 8, "big")
        l = bytes([0x80 | len(b)]) + b
    return tag + l + content


def replay_cases(rep: C.Report, cases: t.List[t.Dict[str, t.Any]], rnd: random.Random) -> None:
    from sansldap.asn1 import ASN1Reader, ASN1Tag, ASN1Writer, TagClass

    for cs in cases:
        if C.too_many_hangs():
            break
        content = bytes(cs["content"])
        want = C.unlimb(cs["value"])
        canon = bytes(cs["canon"])
        trail = bytes(rnd.randrange(256) for _ in range(rnd.randrange(0, 3)))
        rep.case(("int", cs["content"]))
        rep.traces += 1
        # -- read direction (INTEGER and ENUMERATED), remaining bytes untouched
        for tagb, enum in ((b"\x02", False), (b"\x0a", True)):
            data = _tlv(tagb, content) + trail
            try:
                r = ASN1Reader(data)
                got = r.read_enumerated(int) if enum else r.read_integer()
                rest = r.get_remaining_data()
            except Exception as e:  # noqa: BLE001
                rep.violation(f"IntReadAccepts/{_cls(content)}", f"read of content {content.hex()} raised {type(e).__name__}: {e}",
                              {"op": "read_integer", "data": data.hex(), "expected": want})
                continue
            if got != want:
                rep.violation(f"IntReadValue/{_cls(content)}", f"content {content.hex()} read as {got}, X.690 value is {want}",
                              {"op": "read_integer", "data": data.hex(), "expected": want, "observed": got})
            if rest != trail:
                rep.violation("NoOverRead/int", f"reader left {rest.hex()} after the TLV, expected {trail.hex()}",
                              {"op": "read_integer", "data": data.hex(), "expected_rest": trail.hex(), "observed_rest": rest.hex()})
        # -- write direction
        for enum in (False, True):
            w = ASN1Writer()
            try:
                (w.write_enumerated if enum else w.write_integer)(want)
                out = bytes(w.get_data())
            except Exception as e:  # noqa: BLE001
                rep.violation(f"IntWrite/{_cls(canon)}", f"write of {want} raised {type(e).__name__}: {e}", {"op": "write_integer", "value": want})
                continue
            exp = _tlv(b"\x0a" if enum else b"\x02", canon)
            if out != exp:
                rep.violation(f"IntWrite/{_cls(canon)}", f"{want} written as {out.hex()}, minimal two's complement is {exp.hex()}",
                              {"op": "write_integer", "value": want, "expected": exp.hex(), "observed": out.hex()})
        # -- the same octets as a length (header only: peek_header must not need the content)
        lenoct = bytes(cs["lenoct"])
        want_len = int.from_bytes(content, "big")
        try:
            h = ASN1Reader(b"\x04" + lenoct).peek_header()
            if h.length != want_len or h.tag_length != 1 + len(lenoct):
                rep.violation("HeaderReadValue/length", f"length octets {lenoct.hex()} read as {h.length}/{h.tag_length}, expected {want_len}/{1+len(lenoct)}",
                              {"op": "peek_header", "data": (b"\x04" + lenoct).hex(), "expected": want_len, "observed": h.length})
        except Exception as e:  # noqa: BLE001
            rep.violation("HeaderReadAccepts/length", f"peek_header of length octets {lenoct.hex()} raised {type(e).__name__}: {e}",
                          {"op": "peek_header", "data": (b"\x04" + lenoct).hex()})
        # -- the same octets as a tag number
        idoct = bytes(cs["idoct"])
        cls = len(content) % 4
        cons = (len(content) // 4) % 2
        num = C.undigits(cs["tagnum"], 128)
        if not (cls == 0 and num > 36):  # D5: unassigned UNIVERSAL numbers are not tags a conforming peer sends
            try:
                h = ASN1Reader(idoct + b"\x00").peek_header()
                ok = (int(h.tag.tag_class), bool(h.tag.is_constructed), int(h.tag.tag_number), h.tag_length, h.length) == (cls, bool(cons), num, len(idoct) + 1, 0)
                if not ok:
                    rep.violation("HeaderReadValue/tag", f"identifier octets {idoct.hex()} read as {h}", {"op": "peek_header", "data": (idoct + b'\x00').hex(), "expected": [cls, cons, num]})
            except Exception as e:  # noqa: BLE001
                rep.violation("HeaderReadAccepts/tag", f"peek_header of identifier octets {idoct.hex()} raised {type(e).__name__}: {e}", {"op": "peek_header", "data": (idoct + b'\x00').hex()})
            try:
                w = ASN1Writer()
                w.write_octet_string(b"", tag=ASN1Tag(TagClass(cls), num, bool(cons)))
                out = bytes(w.get_data())
                if out != idoct + b"\x00":
                    rep.violation("HeaderWrite/tag", f"tag ({cls},{cons},{num}) written as {out.hex()}, X.690 gives {(idoct+b'\x00').hex()}", {"op": "write tag", "tag": [cls, cons, num], "observed": out.hex()})
            except Exception as e:  # noqa: BLE001
                rep.violation("HeaderWrite/tag", f"writing tag ({cls},{cons},{num}) raised {type(e).__name__}: {e}", {"op": "write tag", "tag": [cls, cons, num]})
        rep.sample({"content": cs["content"], "value": want, "canonical": cs["canon"]}, limit=3)


PRIMS = [(0, 4, b""), (0, 4, b"\x01\x02"), (2, 0, b"\xff"), (2, 31, b"\x07"), (0, 2, b"\x00")]
TAGS = [(0, 16), (0, 17), (1, 3), (2, 0), (3, 1000)]


def replay_rw(rep: C.Report, cases: t.List[t.Dict[str, t.Any]], rnd: random.Random) -> None:
    """spec -> code: every writer history of Asn1Rw.tla on a real ASN1Writer, then the octets walked back by ASN1Reader."""
    from sansldap.asn1 import ASN1Reader, ASN1Tag, ASN1Writer, TagClass

    def walk(r: t.Any, forest: t.List[t.Any], what: str) -> t.Optional[str]:
        for n in forest:
            h = r.peek_header()
            tag = ASN1Tag(TagClass(n["cls"]), n["num"], bool(n["cons"]))
            if (int(h.tag.tag_class), int(h.tag.tag_number), bool(h.tag.is_constructed)) != (n["cls"], n["num"], bool(n["cons"])):
                return f"peek_header gives {h.tag}, expected {tag}"
            mode = rnd.randrange(4)
            if mode == 0:
                before = len(bytes(r._view)) if hasattr(r, "_view") else None
                r.skip_value(h)
                continue
            if n["cons"]:
                rd = r.read_set if (n["cls"], n["num"]) == (0, 17) or rnd.random() < 0.3 else r.read_sequence
                inner = rd(header=h) if mode == 1 else rd(tag=tag)
                err = walk(inner, n["kids"], what)
                if err:
                    return err
                if inner:
                    return "a child reader has octets left after its elements were read"
            else:
                if (n["cls"], n["num"]) == (0, 2) and mode == 1:
                    v = r.read_integer()
                    if v != int.from_bytes(bytes(n["val"]), "big", signed=True):
                        return f"read_integer gives {v}"
                else:
                    v = r.read_octet_string(header=h) if mode == 2 else r.read_octet_string(tag=tag)
                    if v != bytes(n["val"]):
                        return f"read_octet_string gives {v!r}, expected {bytes(n['val'])!r}"
        return None

    for cs in cases:
        rep.case(("rw", str(cs["ops"])))
        rep.traces += 1
        root = ASN1Writer()
        stack = [root]
        try:
            for op in cs["ops"]:
                if op["op"] == "prim":
                    c, n, v = PRIMS[op["j"] - 1]
                    if (c, n) == (0, 2):
                        stack[-1].write_integer(int.from_bytes(v, "big", signed=True))
                    else:
                        stack[-1].write_octet_string(v, tag=ASN1Tag(TagClass(c), n, False))
                elif op["op"] == "push":
                    c, n = TAGS[op["j"] - 1]
                    tag = ASN1Tag(TagClass(c), n, True)
                    if (c, n) == (0, 16):
                        w = stack[-1].push_sequence() if rnd.random() < 0.5 else stack[-1].push_sequence(tag)
                    elif (c, n) == (0, 17):
                        w = stack[-1].push_set() if rnd.random() < 0.5 else stack[-1].push_set_of(tag)
                    else:
                        w = stack[-1].push_sequence_of(tag) if rnd.random() < 0.5 else stack[-1].push_set(tag)
                    w.__enter__()
                    stack.append(w)
                else:
                    stack.pop().__exit__(None, None, None)
            out = bytes(root.get_data())
        except Exception as e:  # noqa: BLE001
            rep.violation("NestedWrite/raised", f"writer history {cs['ops']} raised {type(e).__name__}: {e}", cs)
            continue
        if out != bytes(cs["root"]):
            rep.violation("NestedWrite/octets", f"writer history {[o['op'] for o in cs['ops']]}: get_data() is {out.hex()}, the specification gives {bytes(cs['root']).hex()}", cs)
            continue
        if len(stack) > 1:
            try:
                stack[-1].get_data()
                rep.violation("NestedWrite/child-get-data", "get_data() on a child writer did not raise", cs)
            except TypeError:
                pass
        trail = bytes(rnd.randrange(256) for _ in range(rnd.randrange(0, 3)))
        try:
            r = ASN1Reader(out + trail)
            err = walk(r, cs["forest"], "root")
            rest = r.get_remaining_data()
        except Exception as e:  # noqa: BLE001
            rep.violation("NestedRead/raised", f"reading back {out.hex()} raised {type(e).__name__}: {e}", cs)
            continue
        if err:
            rep.violation("NestedRead/value", f"reading back {out.hex()}: {err}", cs)
        elif rest != trail:
            rep.violation("NoOverRead/nested", f"after reading all values of {out.hex()} the reader has {rest.hex()} left, expected {trail.hex()}", cs)
    rep.add_part("spec->code replay of Asn1Rw.tla (writer histories, reader walk with peek/skip/read by tag or header)", cases=len(cases))



def _cls(content: bytes) -> str:
    if not content:
        return "empty"
    sign = "neg" if content[0] & 0x80 else "pos"
    return f"{sign}-len{min(len(content), 4)}{'+' if len(content) > 4 else ''}"


# ------------------------------------------------------------------------------------------------------------------
# code -> spec driver
# ------------------------------------------------------------------------------------------------------------------
def _rand_int(rnd: random.Random) -> int:
    k = rnd.randrange(9)
    if k == 8:  # content octets on both sides of the short / long length form (127, 128, 129, 255, 256 octets)
        e = rnd.choice((1007, 1015, 1016, 1023, 1024, 2039, 2040, 2047, 2048))
        return rnd.choice((1, -1)) * (2**e + rnd.choice((-1, 0, 1, rnd.getrandbits(64))))
    if k == 0:
        return rnd.randrange(-70000, 70001)
    if k == 1:
        e = rnd.randrange(0, 257)
        return rnd.choice((1, -1)) * (2**e + rnd.choice((-1, 0, 1)))
    if k == 2:
        e = rnd.randrange(0, 33)
        return rnd.choice((1, -1)) * (256**e) * rnd.randrange(1, 300)
    if k == 3:
        return rnd.choice((1, -1)) * rnd.getrandbits(rnd.randrange(1, 600))
    if k == 4:  # runs of 0x00 / 0xFF octets inside the magnitude (multi octet carries)
        n = rnd.randrange(1, 12)
        return rnd.choice((1, -1)) * int.from_bytes(bytes(rnd.choice((0, 0, 255, 255, 1, 128, 127)) for _ in range(n)), "big")
    return rnd.choice((1, -1)) * rnd.getrandbits(rnd.randrange(1, 70))


def _rand_tag(rnd: random.Random) -> t.Tuple[int, int, int]:
    cls = rnd.randrange(4)
    if cls == 0:
        num = rnd.randrange(0, 37)
    else:
        num = rnd.choice([rnd.randrange(0, 41), 126, 127, 128, 129, 16383, 16384, 2**21 - 1, 2**21, 2**28, 2**35, 2**64,
                          rnd.getrandbits(rnd.randrange(1, 80))])
    return cls, rnd.randrange(2), num


def _shape(rnd: random.Random, depth: int) -> t.Dict[str, t.Any]:
    if depth == 0 or rnd.random() < 0.4:
        return {"cls": rnd.choice((0, 2)), "cons": 0, "num": 4 if rnd.random() < 0.5 else rnd.randrange(0, 31),
                "val": [rnd.randrange(256) for _ in range(rnd.choice((0, 1, 2, 5, 127, 128, 200)) if rnd.random() < 0.3 else rnd.randrange(0, 4))]}
    kind = rnd.randrange(3)
    cls, num = ((0, 16), (0, 17), (rnd.choice((1, 2, 3)), rnd.randrange(0, 40)))[kind]
    return {"cls": cls, "cons": 1, "num": num, "set": kind == 1 or (kind == 2 and rnd.random() < 0.5),
            "kids": [_shape(rnd, depth - 1) for _ in range(rnd.randrange(0, 4))]}


def drive(rnd: random.Random, n: int) -> t.List[t.Dict[str, t.Any]]:
    from sansldap.asn1 import ASN1Reader, ASN1Tag, ASN1Writer, TagClass

    ev: t.List[t.Dict[str, t.Any]] = []

    def L(b: bytes) -> t.List[int]:
        return list(b)

    def write_shape(w: t.Any, s: t.Dict[str, t.Any]) -> None:
        tag = ASN1Tag(TagClass(s["cls"]), s["num"], bool(s["cons"]))
        if s["cons"]:
            push = w.push_set_of if s.get("set") else w.push_sequence
            with push(tag) as inner:
                for k in s["kids"]:
                    write_shape(inner, k)
        else:
            w.write_octet_string(bytes(s["val"]), tag=tag)

    def read_shapes(r: t.Any) -> t.List[t.Dict[str, t.Any]]:
        out = []
        while r:
            h = r.peek_header()
            base = {"cls": int(h.tag.tag_class), "cons": int(h.tag.is_constructed), "num": int(h.tag.tag_number)}
            if h.tag.is_constructed:
                rd = r.read_set if rnd.random() < 0.5 else r.read_sequence
                inner = rd(header=h) if rnd.random() < 0.5 else rd(tag=h.tag)
                base["kids"] = read_shapes(inner)
            else:
                base["val"] = L(r.read_octet_string(header=h) if rnd.random() < 0.5 else r.read_octet_string(tag=h.tag))
            out.append(base)
        return out

    def strip(s: t.Dict[str, t.Any]) -> t.Dict[str, t.Any]:
        d = {k: v for k, v in s.items() if k != "set"}
        if "kids" in d:
            d["kids"] = [strip(k) for k in d["kids"]]
        return d

    for _ in range(n):
        if C.too_many_hangs():
            break
        op = rnd.choice(("wint", "wint", "rint", "rint", "wbool", "rbool", "woct", "roct", "whdr", "rhdr", "rhdr", "tree", "siblings"))
        trail = bytes(rnd.randrange(256) for _ in range(rnd.randrange(0, 4)))
        try:
            if op == "wint":
                v = _rand_int(rnd)
                en = rnd.random() < 0.3
                w = ASN1Writer()
                (w.write_enumerated if en else w.write_integer)(v)
                ev.append({"op": "wint", "v": C.limb(v), "en": en, "out": L(bytes(w.get_data()))})
            elif op == "rint":
                v = _rand_int(rnd)
                en = rnd.random() < 0.3
                content = v.to_bytes((v.bit_length() + 8) // 8 or 1, "big", signed=True)
                if rnd.random() < 0.5:  # sign padding
                    content = bytes([0xFF if v < 0 else 0]) * rnd.randrange(1, 4) + content
                if rnd.random() < 0.05:
                    content = b""  # malformed: must be rejected
                inp = _tlv(b"\x0a" if en else b"\x02", content) + trail
                if rnd.random() < 0.05:
                    inp = inp[: rnd.randrange(len(inp))]  # truncated
                e = {"op": "rint", "inp": L(inp), "en": en, "res": "ok", "v": C.limb(0), "rest": []}
                try:
                    r = ASN1Reader(inp)
                    if rnd.random() < 0.4:   # the peek-then-read idiom: the header alone does not say that the content is there
                        h_ = r.peek_header()
                        got = r.read_enumerated(int, header=h_) if en else r.read_integer(header=h_)
                    else:
                        got = r.read_enumerated(int) if en else r.read_integer()
                    e["v"] = C.limb(got)
                    e["rest"] = L(r.get_remaining_data())
                except Exception as ex:  # noqa: BLE001
                    e["res"] = C.exc_kind(ex)
                ev.append(e)
            elif op == "wbool":
                b = rnd.random() < 0.5
                w = ASN1Writer()
                w.write_boolean(b)
                ev.append({"op": "wbool", "b": b, "out": L(bytes(w.get_data()))})
            elif op == "rbool":
                inp = b"\x01\x01" + bytes([rnd.choice((0, 1, 255, 128, 127, rnd.randrange(256)))]) + trail
                e = {"op": "rbool", "inp": L(inp), "res": "ok", "b": False, "rest": []}
                try:
                    r = ASN1Reader(inp)
                    e["b"] = r.read_boolean()
                    e["rest"] = L(r.get_remaining_data())
                except Exception as ex:  # noqa: BLE001
                    e["res"] = C.exc_kind(ex)
                ev.append(e)
            elif op == "woct":
                val = bytes(rnd.randrange(256) for _ in range(rnd.choice((0, 1, 2, 126, 127, 128, 129, 255, 256, 257, rnd.randrange(0, 700)))))
                # the caller's object may be bytes, a bytearray or a memoryview, and may be written more than once
                # (the same value in two messages): every write is an event of its own, judged against the ORIGINAL value
                kind = rnd.randrange(4)
                arg: t.Any = val if kind == 0 else bytearray(val) if kind < 3 else memoryview(bytearray(val))
                for _again in range(rnd.choice((1, 1, 2, 3))):
                    w = ASN1Writer()
                    w.write_octet_string(arg)
                    if kind in (1, 2) and rnd.random() < 0.5:
                        # the caller reuses its buffer as soon as the call has returned: what was written is what the
                        # argument held AT THE CALL
                        keep = bytes(arg)
                        if rnd.random() < 0.5:
                            arg[:] = bytes(len(arg))
                        else:
                            arg.extend(b"reused")
                        out_ = bytes(w.get_data())
                        arg[:] = keep
                    else:
                        out_ = bytes(w.get_data())
                    ev.append({"op": "woct", "val": L(val), "out": L(out_)})
            elif op == "roct":
                val = bytes(rnd.randrange(256) for _ in range(rnd.choice((0, 1, 127, 128, 255, 256, rnd.randrange(0, 400)))))
                lenform = rnd.randrange(3)
                n_ = len(val)
                lo = _tlv(b"", val)[: -n_ or None] if lenform == 0 else bytes([0x80 | (k := rnd.randrange(max(1, (n_.bit_length() + 7) // 8), 9))]) + n_.to_bytes(k, "big")
                inp = b"\x04" + lo + val + trail
                if rnd.random() < 0.08:
                    inp = inp[: rnd.randrange(1, len(inp))] if len(inp) > 1 else inp   # truncated: must be refused, not read short
                e = {"op": "roct", "inp": L(inp), "res": "ok", "val": [], "rest": []}
                try:
                    r = ASN1Reader(inp if rnd.random() < 0.4 else bytearray(inp) if rnd.random() < 0.4 else memoryview(inp) if rnd.random() < 0.5 else memoryview(inp).cast("b"))
                    e["val"] = L(r.read_octet_string(header=r.peek_header()) if rnd.random() < 0.4 else r.read_octet_string())
                    e["rest"] = L(r.get_remaining_data())
                except Exception as ex:  # noqa: BLE001
                    e["res"] = C.exc_kind(ex)
                ev.append(e)
            elif op == "whdr":
                cls, cons, num = _rand_tag(rnd)
                clen = rnd.choice((0, 1, 127, 128, 255, 256, 300, 65535, 65536, rnd.randrange(0, 400)))
                w = ASN1Writer()
                content = bytes(clen)
                w.write_octet_string(content, tag=ASN1Tag(TagClass(cls), num, bool(cons)))
                out = bytes(w.get_data())
                if not out.endswith(content) or len(out) < clen:
                    ev.append({"op": "whdr", "cls": cls, "cons": cons, "num": C.digits(num, 128), "clen": C.digits(clen, 256), "hdr": [255]})
                else:
                    ev.append({"op": "whdr", "cls": cls, "cons": cons, "num": C.digits(num, 128), "clen": C.digits(clen, 256), "hdr": L(out[: len(out) - clen])})
            elif op == "rhdr":
                cls, cons, num = _rand_tag(rnd)
                first = cls * 64 + cons * 32
                ido = bytes([first + num]) if num < 31 else bytes([first + 31]) + bytes(
                    (0x80 | d) if j < len(C.digits(num, 128)) - 1 else d for j, d in enumerate(C.digits(num, 128)))
                ln = rnd.choice((0, 5, 127, 128, 255, 256, 2**16, 2**24 - 1, 2**24, 2**32, 2**64, 2**64 + 5, rnd.getrandbits(rnd.randrange(1, 100))))
                lb = ln.to_bytes((ln.bit_length() + 7) // 8, "big")
                form = rnd.randrange(4)
                if form == 0 and ln < 128:
                    lo = bytes([ln])
                elif form == 3:
                    lo = b"\x80"  # indefinite: must be rejected
                else:
                    k = len(lb) + rnd.randrange(0, 3)
                    k = max(1, min(k, 126))
                    lo = bytes([0x80 | k]) + ln.to_bytes(k, "big")
                inp = ido + lo
                if rnd.random() < 0.15:
                    inp = inp[: rnd.randrange(len(inp))]
                e = {"op": "rhdr", "inp": L(inp), "res": "ok", "cls": 0, "cons": 0, "num": [], "hl": 0, "len": []}
                try:
                    h = ASN1Reader(inp).peek_header()
                    e.update(cls=int(h.tag.tag_class), cons=int(h.tag.is_constructed), num=C.digits(int(h.tag.tag_number), 128),
                             hl=h.tag_length, len=C.digits(h.length, 256))
                except Exception as ex:  # noqa: BLE001
                    e["res"] = C.exc_kind(ex)
                ev.append(e)
            elif op == "siblings":
                # two or three child writers of one parent open AT THE SAME TIME, written to in turns (two parallel lists filled
                # in one loop); each child lands in the parent when it is closed, in closing order
                n_kids = rnd.choice((2, 2, 3))
                seqs = [[bytes(rnd.randrange(256) for _ in range(rnd.choice((0, 1, 3, 130)))) for _ in range(rnd.randrange(0, 4))] for _ in range(n_kids)]
                w = ASN1Writer()
                with w.push_sequence() as parent:
                    kinds = [16 if rnd.random() < 0.7 else 17 for _ in range(n_kids)]
                    kids = [parent.push_sequence() if kn == 16 else parent.push_set() for kn in kinds]
                    for kd in kids:
                        kd.__enter__()
                    for turn in range(4):
                        for kd, vals in zip(kids, seqs):
                            if turn < len(vals):
                                kd.write_octet_string(vals[turn])
                    order = list(range(n_kids))
                    rnd.shuffle(order)
                    for j in order:
                        kids[j].__exit__(None, None, None)
                out = bytes(w.get_data())
                r = ASN1Reader(out)
                back = read_shapes(r)
                shape = [{"cls": 0, "cons": 1, "num": 16, "kids": [{"cls": 0, "cons": 1, "num": kinds[j],
                                                                     "kids": [{"cls": 0, "cons": 0, "num": 4, "val": L(v)} for v in seqs[j]]} for pos, j in enumerate(order)]}]
                ev.append({"op": "tree", "shape": shape, "out": L(out), "back": back, "rest": L(r.get_remaining_data()), "trail": []})
            else:
                shapes = [_shape(rnd, rnd.randrange(1, 7)) for _ in range(rnd.randrange(1, 3))]
                w = ASN1Writer()
                for s in shapes:
                    write_shape(w, s)
                out = bytes(w.get_data())
                r = ASN1Reader(out + trail)
                back = []
                for _s in shapes:  # read exactly as many top-level values as were written
                    h = r.peek_header()
                    one = ASN1Reader(bytes(r._view[: h.tag_length + h.length])) if False else None
                    base = {"cls": int(h.tag.tag_class), "cons": int(h.tag.is_constructed), "num": int(h.tag.tag_number)}
                    if h.tag.is_constructed:
                        base["kids"] = read_shapes(r.read_sequence(header=h))
                    else:
                        base["val"] = L(r.read_octet_string(header=h))
                    back.append(base)
                ev.append({"op": "tree", "shape": [strip(s) for s in shapes], "out": L(out), "back": back,
                           "rest": L(r.get_remaining_data()), "trail": L(trail)})
        except Exception as ex:  # noqa: BLE001  - a write/tree operation raised: recorded as a failed event
            ev.append({"op": "raised", "what": op, "raised": f"{op}: {type(ex).__name__}: {ex}"})
    return ev


def run(tier: str, seed: int) -> int:
    C.use_repo()
    rep = C.Report("C07", tier, seed)
    rnd = random.Random(seed)
    wd = C.workdir("C07")
    try:
        jobs = [dict(module="BerGen", cfg="BerGen_full2.cfg", wd=wd, workers=1, tag="full2"),
                dict(module="BerGen", cfg="BerGen_edge6.cfg", wd=wd, workers=1, tag="edge6")]
        if tier == "thorough":
            jobs.append(dict(module="BerGen", cfg="BerGen_edge7_mc.cfg", wd=wd, workers=8, tag="edge7"))
        jobs.append(dict(module="Asn1Rw", cfg="Asn1Rw_q.cfg" if tier == "quick" else "Asn1Rw_t.cfg", wd=wd, workers=1, tag="rw", timeout=1800))
        res = C.run_tlc_parallel(jobs)
        rw = res.pop()
        rep.add_tlc("Asn1Rw.tla: writer/reader object model (RootIsForest, ReaderAccounts, ChildInvisible) + case emission", rw, exhaustive=True)
        replay_rw(rep, rw.json_cases(), rnd)
        rep.add_tlc("BerGen full alphabet, length<=2 (oracle theorems + case emission)", res[0], exhaustive=True)
        rep.add_tlc("BerGen {00,01,7F,80,FF}, length<=6 (oracle theorems + case emission)", res[1], exhaustive=True)
        if tier == "thorough":
            rep.add_tlc("BerGen {00,01,7F,80,81,FE,FF}, length<=7 (oracle theorems only)", res[2], exhaustive=True)
        cases = res[0].json_cases() + res[1].json_cases()
        if len(cases) != res[0].distinct + res[1].distinct - 2:
            raise C.MachineryError(f"emitted {len(cases)} cases for {res[0].distinct + res[1].distinct - 2} states")
        replay_cases(rep, cases, rnd)
        rep.add_part("spec->code replay", cases=len(cases))

        n = 6000 if tier == "quick" else 60000
        events = drive(rnd, n)
        for e in events:
            rep.case((e["op"], str(e)[:200]))
        verdicts, gen, dist = C.validate_traces("BerTrace", "BerTrace.cfg", events, wd, tag="bertrace", xss="512m")
        rep.states += dist
        rep.transitions += gen
        rep.traces += len(events)
        rep.add_part("code->spec trace validation (BerTrace)", events=len(events), verdicts=len(verdicts))
        for idx, prop, clause in verdicts:
            e = events[idx]
            sig = clause
            if e["op"] in ("wint", "rint") and "v" in e:
                sig += "/" + ("neg" if e["v"]["neg"] else "pos")
            rep.violation(sig, f"{clause} failed for recorded {e['op']} event" + (f" ({e['raised']})" if "raised" in e else ""), e, prop=prop)
        for e in events[:3]:
            rep.sample({k: (v if not isinstance(v, list) or len(v) < 24 else v[:24] + ["..."]) for k, v in e.items()})
        rep.rule = ("spec->code: one case per reachable state of BerGen (distinct content octet strings); code->spec: seeded random calls, "
                    "distinct by (operation, arguments); non-trivial = every case (each has a content octet string or a tag/length of its own)")
        rep.assumptions = ["UNIVERSAL tag numbers are those X.680 assigns (0..36) (D5)", "BOOLEAN content is exactly one octet",
                           "trusted: python int <-> limb conversion (int.to_bytes) and the projection of ASN1Header"]
        return rep.finish()
    finally:
        C.cleanup(wd)
