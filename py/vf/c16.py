from .schem import run_c16 as run  # noqa: F401
