from .schem import run_c17 as run  # noqa: F401
