"""Projection between sansldap's dataclasses and the abstract syntax of spec/LdapMsg.tla (JSON form).

This is the trusted base of the codec binding: ``to_abstract`` is total (anything it does not know projects to an
``{"opaque": ...}`` record that can never compare equal to a specification value) and reads only public dataclass
fields.  ``from_abstract`` is its inverse on the specification's value space and is used by the spec -> code replay.

Text is projected to its UTF-8 octets, integers to limb values, enum members to their integer ``.value``.
"""
from __future__ import annotations

import typing as t

from .common import limb, unlimb

PAGED_OID = "1.2.840.113556.1.4.319"
SHOW_DELETED_OID = "1.2.840.113556.1.4.417"
SHOW_DEACT_OID = "1.2.840.113556.1.4.2065"
NOTICE_OID = "1.3.6.1.4.1.1466.20036"


def B(x: t.Union[str, bytes, bytearray, memoryview, None]) -> t.List[int]:
    if x is None:
        return []
    if isinstance(x, str):
        return list(x.encode("utf-8", errors="surrogatepass"))
    return list(bytes(x))


def S(x: t.Sequence[int]) -> str:
    return bytes(x).decode("utf-8")


def opaque(x: t.Any) -> t.Dict[str, t.Any]:
    return {"opaque": repr(x)[:200]}


# ---------------------------------------------------------------------------------------------------------------
# python -> abstract
# ---------------------------------------------------------------------------------------------------------------
def filter_to_abstract(f: t.Any) -> t.Dict[str, t.Any]:
    import sansldap as s

    # iterative on Not/And/Or would be nicer, but python recursion is fine for the depths the library itself survives
    tp = type(f)
    if tp is s.FilterAnd:
        return {"k": "and", "fs": [filter_to_abstract(x) for x in f.filters]}
    if tp is s.FilterOr:
        return {"k": "or", "fs": [filter_to_abstract(x) for x in f.filters]}
    if tp is s.FilterNot:
        return {"k": "not", "f": filter_to_abstract(f.filter)}
    if tp is s.FilterEquality:
        return {"k": "eq", "attr": B(f.attribute), "v": B(f.value)}
    if tp is s.FilterGreaterOrEqual:
        return {"k": "ge", "attr": B(f.attribute), "v": B(f.value)}
    if tp is s.FilterLessOrEqual:
        return {"k": "le", "attr": B(f.attribute), "v": B(f.value)}
    if tp is s.FilterApproxMatch:
        return {"k": "approx", "attr": B(f.attribute), "v": B(f.value)}
    if tp is s.FilterPresent:
        return {"k": "present", "attr": B(f.attribute)}
    if tp is s.FilterSubstrings:
        return {"k": "sub", "attr": B(f.attribute), "hasIni": f.initial is not None, "ini": B(f.initial),
                "any": [B(a) for a in f.any], "hasFin": f.final is not None, "fin": B(f.final)}
    if tp is s.FilterExtensibleMatch:
        return {"k": "ext", "hasRule": f.rule is not None, "rule": B(f.rule), "hasAttr": f.attribute is not None,
                "attr": B(f.attribute), "v": B(f.value), "dn": bool(f.dn_attributes)}
    if getattr(tp, "_verif_other", False):
        return {"k": "other", "n": int(f.filter_id), "val": B(f.val)}
    return {"k": "opaque", **opaque(f)}


def control_to_abstract(c: t.Any) -> t.Dict[str, t.Any]:
    import sansldap as s

    tp = type(c)
    if tp is s.PagedResultControl:
        return {"type": B(c.control_type), "crit": bool(c.critical), "known": "paged", "hasValue": False, "value": [],
                "size": limb(c.size), "cookie": B(c.cookie)}
    flag_oids = ("1.2.840.113556.1.4.417", "1.2.840.113556.1.4.2065")
    if tp in (s.ShowDeletedControl, s.ShowDeactivatedLinkControl) or (tp is s.LDAPControl and c.control_type in flag_oids):
        # a flag control may carry a value when a peer sent one (the decoder stores it on the object)
        return {"type": B(c.control_type), "crit": bool(c.critical), "known": "noval", "hasValue": c.value is not None, "value": B(c.value),
                "size": limb(0), "cookie": []}
    if tp is s.LDAPControl:
        return {"type": B(c.control_type), "crit": bool(c.critical), "known": "no", "hasValue": c.value is not None,
                "value": B(c.value), "size": limb(0), "cookie": []}
    return {"type": B(getattr(c, "control_type", "")), "crit": False, "known": "opaque", "hasValue": False, "value": [],
            "size": limb(0), "cookie": [], **opaque(c)}


def result_to_abstract(r: t.Any) -> t.Dict[str, t.Any]:
    return {"code": limb(int(r.result_code.value if hasattr(r.result_code, "value") else r.result_code)),
            "matched": B(r.matched_dn), "diag": B(r.diagnostics_message),
            "hasRef": r.referrals is not None, "refs": [B(x) for x in (r.referrals or [])]}


def auth_to_abstract(a: t.Any) -> t.Dict[str, t.Any]:
    import sansldap as s

    if type(a) is s.SimpleCredential:
        return {"k": "simple", "password": B(a.password)}
    if type(a) is s.SaslCredential:
        return {"k": "sasl", "mech": B(a.mechanism), "hasCreds": a.credentials is not None, "creds": B(a.credentials)}
    if getattr(type(a), "_verif_other", False):
        return {"k": "other", "n": int(a.auth_id), "val": B(a.val)}
    return {"k": "opaque", **opaque(a)}


def to_abstract(m: t.Any) -> t.Dict[str, t.Any]:
    import sansldap as s

    base = {"id": limb(m.message_id), "controls": [control_to_abstract(c) for c in m.controls]}
    tp = type(m)
    if tp is s.BindRequest:
        return {"op": "bindRequest", **base, "version": limb(m.version), "name": B(m.name), "auth": auth_to_abstract(m.authentication)}
    if tp is s.BindResponse:
        return {"op": "bindResponse", **base, "result": result_to_abstract(m.result), "hasSasl": m.server_sasl_creds is not None,
                "sasl": B(m.server_sasl_creds)}
    if tp is s.UnbindRequest:
        return {"op": "unbindRequest", **base}
    if tp is s.SearchRequest:
        return {"op": "searchRequest", **base, "base": B(m.base_object), "scope": limb(int(m.scope.value)),
                "deref": limb(int(m.deref_aliases.value)), "size": limb(m.size_limit), "time": limb(m.time_limit),
                "typesOnly": bool(m.types_only), "filter": filter_to_abstract(m.filter), "attrs": [B(a) for a in m.attributes]}
    if tp is s.SearchResultEntry:
        return {"op": "searchResEntry", **base, "name": B(m.object_name),
                "attrs": [{"type": B(a.name), "vals": [B(v) for v in a.values]} for a in m.attributes]}
    if tp is s.SearchResultDone:
        return {"op": "searchResDone", **base, "result": result_to_abstract(m.result)}
    if tp is s.SearchResultReference:
        return {"op": "searchResRef", **base, "uris": [B(u) for u in m.uris]}
    if tp is s.ExtendedRequest:
        return {"op": "extendedReq", **base, "name": B(m.name), "hasValue": m.value is not None, "value": B(m.value)}
    if tp is s.ExtendedResponse:
        return {"op": "extendedResp", **base, "result": result_to_abstract(m.result), "hasName": m.name is not None, "name": B(m.name),
                "hasValue": m.value is not None, "value": B(m.value)}
    return {"op": "opaque", **base, **opaque(m)}


# ---------------------------------------------------------------------------------------------------------------
# abstract -> python
# ---------------------------------------------------------------------------------------------------------------
def filter_from_abstract(f: t.Dict[str, t.Any]) -> t.Any:
    import sansldap as s

    k = f["k"]
    if k == "and":
        return s.FilterAnd([filter_from_abstract(x) for x in f["fs"]])
    if k == "or":
        return s.FilterOr([filter_from_abstract(x) for x in f["fs"]])
    if k == "not":
        return s.FilterNot(filter_from_abstract(f["f"]))
    if k == "eq":
        return s.FilterEquality(S(f["attr"]), bytes(f["v"]))
    if k == "ge":
        return s.FilterGreaterOrEqual(S(f["attr"]), bytes(f["v"]))
    if k == "le":
        return s.FilterLessOrEqual(S(f["attr"]), bytes(f["v"]))
    if k == "approx":
        return s.FilterApproxMatch(S(f["attr"]), bytes(f["v"]))
    if k == "present":
        return s.FilterPresent(S(f["attr"]))
    if k == "sub":
        return s.FilterSubstrings(S(f["attr"]), bytes(f["ini"]) if f["hasIni"] else None, [bytes(a) for a in f["any"]],
                                  bytes(f["fin"]) if f["hasFin"] else None)
    if k == "ext":
        return s.FilterExtensibleMatch(S(f["rule"]) if f["hasRule"] else None, S(f["attr"]) if f["hasAttr"] else None,
                                       bytes(f["v"]), bool(f["dn"]))
    raise ValueError(k)


def control_from_abstract(c: t.Dict[str, t.Any]) -> t.Any:
    import sansldap as s

    if c["known"] == "paged":
        return s.PagedResultControl(critical=c["crit"], size=unlimb(c["size"]), cookie=bytes(c["cookie"]))
    if c["known"] == "noval":
        if c["hasValue"]:   # only a peer can produce this form: build it generically
            return s.LDAPControl(S(c["type"]), c["crit"], bytes(c["value"]))
        cls = s.ShowDeletedControl if S(c["type"]) == SHOW_DELETED_OID else s.ShowDeactivatedLinkControl
        return cls(critical=c["crit"])
    return s.LDAPControl(S(c["type"]), c["crit"], bytes(c["value"]) if c["hasValue"] else None)


def result_from_abstract(r: t.Dict[str, t.Any]) -> t.Any:
    import sansldap as s

    return s.LDAPResult(s.LDAPResultCode(unlimb(r["code"])), S(r["matched"]), S(r["diag"]),
                        [S(x) for x in r["refs"]] if r["hasRef"] else None)


def from_abstract(m: t.Dict[str, t.Any]) -> t.Any:
    import sansldap as s

    mid = unlimb(m["id"])
    ctl = [control_from_abstract(c) for c in m["controls"]]
    op = m["op"]
    if op == "bindRequest":
        a = m["auth"]
        auth = s.SimpleCredential(S(a["password"])) if a["k"] == "simple" else s.SaslCredential(
            S(a["mech"]), bytes(a["creds"]) if a["hasCreds"] else None)
        return s.BindRequest(mid, ctl, unlimb(m["version"]), S(m["name"]), auth)
    if op == "bindResponse":
        return s.BindResponse(mid, ctl, result_from_abstract(m["result"]), bytes(m["sasl"]) if m["hasSasl"] else None)
    if op == "unbindRequest":
        return s.UnbindRequest(mid, ctl)
    if op == "searchRequest":
        return s.SearchRequest(mid, ctl, S(m["base"]), s.SearchScope(unlimb(m["scope"])), s.DereferencingPolicy(unlimb(m["deref"])),
                               unlimb(m["size"]), unlimb(m["time"]), bool(m["typesOnly"]), filter_from_abstract(m["filter"]),
                               [S(a) for a in m["attrs"]])
    if op == "searchResEntry":
        return s.SearchResultEntry(mid, ctl, S(m["name"]), [s.PartialAttribute(S(a["type"]), [bytes(v) for v in a["vals"]]) for a in m["attrs"]])
    if op == "searchResDone":
        return s.SearchResultDone(mid, ctl, result_from_abstract(m["result"]))
    if op == "searchResRef":
        return s.SearchResultReference(mid, ctl, [S(u) for u in m["uris"]])
    if op == "extendedReq":
        return s.ExtendedRequest(mid, ctl, S(m["name"]), bytes(m["value"]) if m["hasValue"] else None)
    if op == "extendedResp":
        return s.ExtendedResponse(mid, ctl, result_from_abstract(m["result"]), S(m["name"]) if m["hasName"] else None,
                                  bytes(m["value"]) if m["hasValue"] else None)
    raise ValueError(op)


# ---------------------------------------------------------------------------------------------------------------
# session-level descriptor of a message (kind + id) - the abstraction of spec/SessionCore.tla
# ---------------------------------------------------------------------------------------------------------------
def kind_of(m: t.Any) -> str:
    import sansldap as s

    tp = type(m)
    if tp is s.BindRequest:
        return "bindReq"
    if tp is s.SearchRequest:
        return "searchReq"
    if tp is s.ExtendedRequest:
        return "extReq"
    if tp is s.UnbindRequest:
        return "unbind"
    if tp is s.BindResponse:
        return "bindRespProg" if int(m.result.result_code.value) == 14 else "bindRespOk"
    if tp is s.ExtendedResponse:
        return "notice" if m.name == NOTICE_OID else "extResp"
    if tp is s.SearchResultEntry:
        return "entry"
    if tp is s.SearchResultReference:
        return "ref"
    if tp is s.SearchResultDone:
        return "done"
    return "other"


# ------------------------------------------------------------------------------------------------------------------
# application-registered alternatives of the extensible CHOICEs (AuthenticationChoice, Filter): one class per tag number,
# written the way the library's documentation and tests write them; the tag numbers sit on the boundaries of the
# identifier-octet forms (30/31: low/high form, 127/128 and 16383/16384: one/two/three 7-bit groups)
OTHER_IDS = (10, 30, 31, 127, 128, 200, 255, 1024, 16383, 16384, 65535, 2097151)
_OTHER: t.Dict[t.Tuple[str, int, int], t.Any] = {}


def other_class(kind: str, n: int) -> t.Any:
    """kind 'auth' or 'filter'; classes are created per imported library (use_repo may re-import it)."""
    import dataclasses

    import sansldap as s
    from sansldap.asn1 import ASN1Tag, TagClass

    key = (kind, n, id(s))
    if key in _OTHER:
        return _OTHER[key]
    tag = ASN1Tag(TagClass.CONTEXT_SPECIFIC, n, False)
    if kind == "auth":
        @dataclasses.dataclass(frozen=True)
        class OtherAuth(s.AuthenticationCredential):
            auth_id: int = dataclasses.field(init=False, repr=False, default=n)
            val: bytes = b""

            def pack(self, writer: t.Any, options: t.Any) -> None:
                writer.write_octet_string(self.val, tag=tag)

            @classmethod
            def unpack(cls, reader: t.Any, options: t.Any) -> t.Any:
                return cls(val=bytes(reader.read_octet_string(tag=tag, hint="OtherAuth.val")))

        OtherAuth._verif_other = True  # type: ignore[attr-defined]
        OtherAuth.__name__ = OtherAuth.__qualname__ = f"OtherAuth{n}"
        _OTHER[key] = OtherAuth
    else:
        @dataclasses.dataclass(frozen=True)
        class OtherFilter(s.LDAPFilter):
            filter_id: int = dataclasses.field(init=False, repr=False, default=n)
            val: bytes = b""

            def pack(self, writer: t.Any, options: t.Any) -> None:
                writer.write_octet_string(self.val, tag=tag)

            @classmethod
            def unpack(cls, reader: t.Any, options: t.Any) -> t.Any:
                return cls(val=bytes(reader.read_octet_string(tag=tag, hint="OtherFilter.val")))

        OtherFilter._verif_other = True  # type: ignore[attr-defined]
        OtherFilter.__name__ = OtherFilter.__qualname__ = f"OtherFilter{n}"
        _OTHER[key] = OtherFilter
    return _OTHER[key]
