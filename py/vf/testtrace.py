"""The repository's own session tests as a source of traces (code -> spec, SessionTrace.tla).

Loaded as a pytest plugin (`-p vf.testtrace`, PYTHONPATH=/verif/py) this module wraps the public methods of
LDAPSession / LDAPClient / LDAPServer *from outside* (no change to the library): every call a test makes on a session
object is logged after it returned or raised - arguments, outcome, newly queued octets, projected state - and at the end
of the pytest session the per-object event lists are written as SessionTrace events to $VERIF_TESTTRACE_OUT.  The
assertions of the tests themselves are untouched; the trace specification then evaluates ALL its clauses on every step
of every scenario the maintainers wrote (the tests assert a handful of fields per scenario).

The peer's units are declared after the fact: the octets a test fed to receive() are concatenated and cut with an
independent outer-TLV framer, every complete unit is classified with the library's decoder under the receiving
session's own registrations (the codec is judged by C01/C03/C04, not here); a unit that does not decode is declared
malformed.
"""
from __future__ import annotations

import copy
import functools
import hashlib
import inspect
import json
import os
import typing as t

_STATE: t.Dict[str, t.Any] = {"depth": 0, "objs": [], "events": {}, "test": "", "custom": set()}
NOTICE = "1.3.6.1.4.1.1466.20036"

CLIENT_SENDS = {"bind": "bindReq", "bind_simple": "bindReq", "bind_sasl": "bindReq", "extended_request": "extReq", "search_request": "searchReq"}
SERVER_SENDS = {"bind_response": "bindResp", "extended_response": "extResp", "search_result_entry": "entry", "search_result_reference": "ref",
                "search_result_done": "done"}


def _L(b: t.Any) -> t.List[int]:
    return list(bytes(b))


def _small(v: t.Any) -> int:
    return v if isinstance(v, int) and not isinstance(v, bool) and abs(v) < 2**31 else -7


def _dig(m: t.Any) -> str:
    from . import proj

    try:
        return hashlib.blake2b(json.dumps(proj.to_abstract(m), sort_keys=True).encode(), digest_size=8).hexdigest()
    except Exception:  # noqa: BLE001  custom classes of the tests: fall back to the value's repr
        return hashlib.blake2b(repr(m).encode(), digest_size=8).hexdigest()


def _has_custom(obj: t.Any, depth: int = 0) -> bool:
    """Does a call argument contain an application-defined filter / control / credential (a class from outside the
    library)?  Its encoding is outside the RFC 4511 reference decoder."""
    import dataclasses

    import sansldap

    if depth > 8 or obj is None or isinstance(obj, (str, bytes, bytearray, int, bool)):
        return False
    if isinstance(obj, (list, tuple)):
        return any(_has_custom(x, depth + 1) for x in obj)
    if isinstance(obj, dict):
        return any(_has_custom(x, depth + 1) for x in obj.values())
    if isinstance(obj, (sansldap.LDAPFilter, sansldap.LDAPControl, sansldap.AuthenticationCredential)) and not type(obj).__module__.startswith("sansldap"):
        return True
    if dataclasses.is_dataclass(obj) and not isinstance(obj, type):
        return any(_has_custom(getattr(obj, f.name, None), depth + 1) for f in dataclasses.fields(obj))
    return False


def _role(s: t.Any) -> str:
    import sansldap

    return "client" if isinstance(s, sansldap.LDAPClient) else "server"


def _post(s: t.Any) -> t.Dict[str, t.Any]:
    if s.state.name == "CLOSED":
        return {"state": "CLOSED", "out": [], "srch": []}
    o = getattr(s, "_outstanding_requests", set())
    q = getattr(s, "_search_requests", set())
    o = {v for v in o if isinstance(v, int) and abs(v) < 2**31}
    q = {v for v in q if isinstance(v, int) and abs(v) < 2**31}
    return {"state": s.state.name, "out": sorted(o), "srch": sorted(q & o if _role(s) == "client" else q)}


def _events(s: t.Any) -> t.List[t.Dict[str, t.Any]]:
    key = id(s)
    if key not in _STATE["events"]:
        _STATE["objs"].append(s)  # keeps the object alive: ids are not reused
        _STATE["events"][key] = [{"ev": "new", "role": _role(s), "tid": len(_STATE["objs"]), "family": "repo-tests", "test": _STATE["test"],
                                  "fresh": s.state.name == "BEFORE_OPEN" and not _pending(s)}]
    return _STATE["events"][key]


def _pending(s: t.Any) -> bytes:
    _STATE["depth"] += 1
    try:
        return bytes(copy.deepcopy(s).data_to_send())
    finally:
        _STATE["depth"] -= 1


def _wrap(cls: t.Any, name: str) -> None:
    orig = cls.__dict__[name]
    sig = inspect.signature(orig)

    @functools.wraps(orig)
    def wrapper(self: t.Any, *a: t.Any, **kw: t.Any) -> t.Any:
        if _STATE["depth"]:
            return orig(self, *a, **kw)
        from . import common as C
        from . import proj

        evs = _events(self)
        role = _role(self)
        before = _pending(self) if name not in ("receive", "data_to_send") else b""
        _STATE["depth"] += 1
        res, exc, ret = "ok", None, None
        try:
            ret = orig(self, *a, **kw)
            return ret
        except BaseException as ex:  # noqa: BLE001
            res, exc = C.exc_kind(ex), ex
            raise
        finally:
            _STATE["depth"] -= 1
            try:
                e: t.Dict[str, t.Any]
                if name == "receive":
                    try:
                        chunk = bytes(sig.bind(self, *a, **kw).arguments["data"])
                    except Exception:  # noqa: BLE001
                        chunk = b""
                    e = {"ev": "recv", "chunk": _L(chunk), "res": res, "msgs": [], "resp": []}
                    if exc is not None:
                        e["exc"] = f"{type(exc).__name__}: {exc}"[:160]
                        r = getattr(exc, "response", None)
                        if r:
                            e["resp"] = _L(r[:100000])  # a notification is tens of octets; a huge one must not choke the validator (its prefix does not decode: verdict)
                    else:
                        e["msgs"] = [{"k": proj.kind_of(m), "id": _small(m.message_id), "dig": _dig(m)} for m in ret]
                    e["_options"] = getattr(self, "_packing_options", None)
                    e.update(_post(self))
                elif name == "data_to_send":
                    try:
                        amount = sig.bind(self, *a, **kw).arguments.get("amount")
                    except Exception:  # noqa: BLE001
                        amount = None
                    e = {"ev": "drain", "amount": -1 if amount is None else _small(amount), "got": _L(ret if exc is None else b""), "state": self.state.name}
                else:
                    after = _pending(self)
                    emitted = after[len(before):] if after.startswith(before) else b"\xff" + after
                    k, mid = "unbind", 0
                    if name != "unbind":
                        try:
                            args = sig.bind(self, *a, **kw).arguments
                        except Exception:  # noqa: BLE001
                            args = {}
                        if role == "client":
                            k = CLIENT_SENDS[name]
                        else:
                            k, mid = SERVER_SENDS[name], _small(args.get("message_id", -7))
                            if k == "bindResp":
                                code = args.get("result_code", 0)
                                k = "bindRespProg" if int(getattr(code, "value", code) or 0) == 14 else "bindRespOk"
                            elif k == "extResp" and str(getattr(args.get("name"), "value", args.get("name"))) == NOTICE:
                                k = "notice"
                    custom = _has_custom(list(a)) or _has_custom(kw)
                    e = {"ev": "unbind" if name == "unbind" else "send", "custom": custom, "k": k, "id": mid, "res": res, "ret": _small(ret) if exc is None and ret is not None else 0,
                         "emitted": _L(emitted), "exc": "" if exc is None else f"{type(exc).__name__}: {exc}"[:160]}
                    e.update(_post(self))
                evs.append(e)
            except Exception as ex2:  # noqa: BLE001  the recorder must never change the outcome of a test
                evs.append({"ev": "recorder-error", "what": f"{type(ex2).__name__}: {ex2}"[:200]})

    setattr(cls, name, wrapper)


def install() -> None:
    import sansldap

    if getattr(sansldap, "_verif_testtrace", False):
        return
    sansldap._verif_testtrace = True  # type: ignore[attr-defined]
    base = sansldap.LDAPClient.__mro__[1]
    for n in ("register_auth_credential", "register_control", "register_filter"):
        orig = base.__dict__[n]

        def reg(self: t.Any, *a: t.Any, _orig: t.Any = orig, **kw: t.Any) -> t.Any:
            _events(self)
            _STATE["custom"].add(id(self))
            return _orig(self, *a, **kw)

        setattr(base, n, functools.wraps(orig)(reg))
    for cls, names in ((base, ("receive", "data_to_send", "unbind")), (sansldap.LDAPClient, tuple(CLIENT_SENDS) + ("receive",)),
                       (sansldap.LDAPServer, tuple(SERVER_SENDS) + ("receive",))):
        for n in names:
            if n in cls.__dict__:
                _wrap(cls, n)


# ---- post-processing ---------------------------------------------------------------------------------------------
def _frame(buf: bytes, pos: int) -> t.Tuple[str, int]:
    """Outer TLV at pos: ("ok", end) / ("more", 0) incomplete / ("bad", 0) a header no definite-length reader accepts."""
    n = len(buf)
    if pos >= n:
        return "more", 0
    p = pos + 1
    if buf[pos] & 0x1F == 0x1F:
        while True:
            if p >= n:
                return "more", 0
            p += 1
            if not buf[p - 1] & 0x80:
                break
    if p >= n:
        return "more", 0
    l0 = buf[p]
    p += 1
    if l0 < 0x80:
        ln = l0
    elif l0 == 0x80 or l0 == 0xFF:
        return "bad", 0
    else:
        k = l0 & 0x7F
        if p + k > n:
            return "more", 0
        ln = int.from_bytes(buf[p:p + k], "big")
        p += k
    if p + ln > n:
        return "more", 0
    return "ok", p + ln


def _declare(stream: bytes, options: t.Any, tail_valid: bool) -> t.List[t.Dict[str, t.Any]]:
    from sansldap._messages import unpack_ldap_message
    from sansldap.asn1 import ASN1Reader

    from . import proj

    units: t.List[t.Dict[str, t.Any]] = []
    pos = 0
    while pos < len(stream):
        how, end = _frame(stream, pos)
        if how != "ok":
            units.append({"k": "garbage", "id": 0, "valid": tail_valid and how == "more", "dig": "tail"})
            break
        unit = stream[pos:end]
        try:
            m = unpack_ldap_message(ASN1Reader(unit), options)
            k = proj.kind_of(m)
            if k == "other" or _small(m.message_id) == -7:
                raise ValueError("not a session-level message")
            units.append({"k": k, "id": m.message_id, "valid": True, "dig": _dig(m)})
        except Exception:  # noqa: BLE001
            units.append({"k": "garbage", "id": 0, "valid": False, "dig": "garbage"})
        pos = end
    return units


def finish(path: str) -> None:
    from sansldap._messages import PackingOptions

    out: t.List[t.Dict[str, t.Any]] = []
    for s in _STATE["objs"]:
        evs = _STATE["events"][id(s)]
        if not evs[0].pop("fresh", True) or any(e["ev"] == "recorder-error" for e in evs):
            continue  # first seen in mid-life (created by a fixture before the plugin saw it) or the recorder failed: skip
        stream = b""
        options = PackingOptions()
        tail_valid = True
        for e in evs:
            if e["ev"] == "recv":
                stream += bytes(e["chunk"])
                options = e.pop("_options", None) or options
                if e["res"] != "ok":
                    tail_valid = False
                    break
        for e in evs:
            e.pop("_options", None)
            if id(s) in _STATE["custom"] and e["ev"] in ("send", "unbind"):
                e["custom"] = True  # a session with registered types may also echo them (controls of a response)
        units = _declare(stream, options, tail_valid)
        out.append(evs[0])
        if units:
            out.append({"ev": "stream", "units": units})
        out.extend(evs[1:])
    with open(path, "w") as f:
        for e in out:
            f.write(json.dumps(e) + "\n")


# ---- pytest hooks ----------------------------------------------------------------------------------------------------
def pytest_configure(config: t.Any) -> None:
    install()


def pytest_runtest_setup(item: t.Any) -> None:
    _STATE["test"] = item.nodeid


def pytest_sessionfinish(session: t.Any, exitstatus: t.Any) -> None:
    path = os.environ.get("VERIF_TESTTRACE_OUT")
    if path:
        finish(path)
