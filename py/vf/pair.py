"""C11 / C02: spec -> code replay of spec/Pair.tla on a real LDAPClient and LDAPServer joined by byte queues.

Every transition TLC emits (client call, server call, partial drain, partial delivery, drop) is executed on a real
pair standing in the edge's abstract source state.  Abstract octet <<m, j>> is the j-th of W seeded non-empty segments
of the real encoding of m, so "deliver n octets" becomes a real chunk that ends at or inside real message boundaries.
Compared after every step: exception class, the messages each receive returns (count, kind, id and *value* against
what the sender queued), both ``state`` attributes, the bytes drained; at quiescence the two sides' operations in
progress, observed behaviourally on clones (a response / probe request is accepted iff the operation is in progress).
"""
from __future__ import annotations

import collections
import copy
import json
import multiprocessing as mp
import os
import random
import typing as t

from . import common as C
from . import msggen, proj, sess


class PairRig:
    def __init__(self, w: int, rnd: random.Random):
        import sansldap as s

        self.w = w
        self.rnd = rnd
        self.c = s.LDAPClient()
        self.s = s.LDAPServer()
        self.cob: t.Deque[bytes] = collections.deque()
        self.sob: t.Deque[bytes] = collections.deque()
        self.c2s: t.Deque[bytes] = collections.deque()
        self.s2c: t.Deque[bytes] = collections.deque()
        self.c_sent: t.Deque[t.Any] = collections.deque()  # abstract values of messages the client queued, not yet returned by the server
        self.s_sent: t.Deque[t.Any] = collections.deque()
        self.returned: t.List[t.Tuple[t.Any, t.Any]] = []  # (message object returned earlier, its projection then) - must stay self-contained

    def split(self, b: bytes) -> t.List[bytes]:
        n, r, w = len(b), self.rnd, self.w
        if w == 1:
            return [b]
        u = r.random()
        if u < 0.45 and n > 8:
            # a cut inside the outer header: after the tag, inside the length octets, right after the header
            cuts = sorted({r.choice((1, 2, 2, 2, 3, 3, 4, 5, 6))} | set(r.sample(range(7, n), w - 2)))
        elif u < 0.75:
            cuts = sorted(r.sample(range(1, n), w - 1))
        else:
            cuts = sorted({1, n - 1} | set(r.sample(range(1, n), max(0, w - 3))))[: w - 1]
        if len(cuts) != w - 1:
            cuts = sorted(r.sample(range(1, n), w - 1))
        return [b[a:z] for a, z in zip([0] + cuts, cuts + [n])]


def step(rig: PairRig, e: t.Dict[str, t.Any]) -> t.List[t.Tuple[str, str, str]]:
    call = e["call"]
    op = call["op"]
    diffs: t.List[t.Tuple[str, str, str]] = []
    rnd = rig.rnd
    if op in ("ccall", "cunbind", "scall"):
        side = "c" if op[0] == "c" else "s"
        sessn = rig.c if side == "c" else rig.s
        before = copy.deepcopy(sessn).data_to_send()
        acall = {"op": "unbind"} if op == "cunbind" else {"op": "send", "k": call["k"], "id": call["id"]}
        obs = sess.invoke(sessn, "client" if side == "c" else "server", acall, rnd)
        raw = copy.deepcopy(sessn).data_to_send()
        if obs["res"] != "ok":
            diffs.append(("C11", f"accepted-call-refused/{op}/{call['k']}", f"{op} {call['k']} id={call['id']} is accepted by the model but raised {obs['exc']}"))
            return diffs
        if op != "cunbind" and obs["ret"] != call["id"]:
            diffs.append(("C09" if side == "c" else "C10", f"returned-id/{op}", f"{op} {call['k']} returned {obs['ret']}, expected {call['id']}"))
        if not raw.startswith(before):
            for prop in ("C12", "C11"):
                diffs.append((prop, f"pending-rewritten/{op}", "the pending octets changed although nothing was drained"))
            return diffs
        new = raw[len(before):]
        try:
            vals = sess.decode_all(new)
        except Exception as ex:  # noqa: BLE001
            for prop in ("C12", "C11"):
                diffs.append((prop, f"queued-undecodable/{op}", f"octets queued by {op} {call['k']} are not decodable: {type(ex).__name__}"))
            return diffs
        if len(vals) != 1 or proj.kind_of(vals[0]) != call["k"] or (op != "cunbind" and vals[0].message_id != call["id"]):
            for prop in ("C09" if side == "c" else "C10", "C11"):
                diffs.append((prop, f"queued-message/{op}/{call['k']}", f"{op} {call['k']} id={call['id']} queued {[(proj.kind_of(v), v.message_id) for v in vals]} (the message the call sends is not what reaches the stream)"))
            return diffs
        want_flt = obs.get("intent", {}).get("filter")
        if want_flt is not None and hasattr(vals[0], "filter") and proj.filter_to_abstract(vals[0].filter) != want_flt:
            for prop in ("C11", "C03"):
                diffs.append((prop, f"queued-value/{op}/filter", f"{op} searchReq: the filter in the message queued for the peer is not the filter the call was given ({str(want_flt)[:120]})"))
            return diffs
        want_code = obs.get("intent", {}).get("code")
        if want_code is not None and hasattr(vals[0], "result"):
            got_code = int(getattr(vals[0].result.result_code, "value", vals[0].result.result_code))
            if got_code != want_code:
                for prop in ("C11", "C03"):
                    diffs.append((prop, f"queued-value/{op}/{call['k']}", f"{op} {call['k']} was called with result code {want_code}; the message queued for the peer carries {got_code}"))
                return diffs
        (rig.cob if side == "c" else rig.sob).extend(rig.split(new))
        (rig.c_sent if side == "c" else rig.s_sent).append(proj.to_abstract(vals[0]))
    elif op in ("cdrain", "sdrain"):
        side = op[0]
        segs, pipe = (rig.cob, rig.c2s) if side == "c" else (rig.sob, rig.s2c)
        k = call["id"]
        everything = k == len(segs)
        want = [segs.popleft() for _ in range(k)]
        amount: t.Optional[int] = sum(len(x) for x in want)
        if everything and rnd.random() < 0.5:   # a writer loop typically asks for "up to N octets" or for everything
            amount = None if rnd.random() < 0.4 else amount + rnd.choice((1, 7, 4096))
        got = (rig.c if side == "c" else rig.s).data_to_send(amount)
        if got != b"".join(want):
            for prop in ("C12", "C11"):
                diffs.append((prop, f"drain/{op}", f"data_to_send({amount}) returned {len(got)} octets that differ from the octets queued next"))
        pipe.extend(want)
    elif op in ("sdeliver", "cdeliver"):
        side = op[0]
        sessn = rig.s if side == "s" else rig.c
        pipe = rig.c2s if side == "s" else rig.s2c
        sent = rig.c_sent if side == "s" else rig.s_sent
        n = call["id"]
        chunk = b"".join(pipe.popleft() for _ in range(n))
        buf = bytearray(chunk)
        res, got, exc = "ok", [], ""
        try:
            got = sessn.receive(buf if rnd.random() < 0.7 else bytes(buf) if rnd.random() < 0.5 else memoryview(buf))
        except Exception as ex:  # noqa: BLE001
            res, exc = C.exc_kind(ex), f"{type(ex).__name__}: {ex}"[:160]
        for j in range(len(buf)):
            buf[j] = 0xAA  # the caller reuses its buffer
        exp_res = "ok" if call["k"] == "none" else "ProtocolError"
        role = "server" if side == "s" else "client"
        where = f"{role}.receive({n} model octets = {len(chunk)} bytes)"
        if res != exp_res:
            if res not in ("ok", "ProtocolError"):
                diffs.append(("C05", f"foreign-exception/{role}/{res}", f"{where}: {exc}"))
            elif exp_res == "ok":
                diffs.append(("C11", f"spurious-error/{role}", f"{where}: {exc} although the stream is well-formed and every call was accepted"))
            else:
                diffs.append(("C08", f"termination-ignored/{role}", f"{where}: expected the designed termination, got {res}"))
            return diffs
        if res == "ok":
            desc = [{"k": proj.kind_of(m), "id": m.message_id} for m in got]
            if desc != call["msgs"]:
                nd, ne = len(desc), len(call["msgs"])
                for prop in (("C06", "C02", "C11") if nd < ne else ("C02", "C11")):
                    diffs.append((prop, f"returned-messages/{role}/{'fewer' if nd < ne else 'more' if nd > ne else 'different'}",
                                  f"{where}: returned {desc}, the complete units delivered are {call['msgs']}"))
                return diffs
            for m in got:
                v = proj.to_abstract(m)
                exp = sent.popleft() if sent else None
                if v != exp:
                    for prop_ in ("C02", "C11"):
                        diffs.append((prop_, f"returned-value/{role}", f"{where}: a returned {proj.kind_of(m)} differs from the message that was sent"))
                rig.returned.append((m, v))
        else:
            sent.clear()
        # messages returned earlier are self-contained values
        for m, v in rig.returned[-6:]:
            if proj.to_abstract(m) != v:
                diffs.append(("C02", f"returned-value-mutated/{role}", f"{where}: a message returned by an earlier receive changed afterwards"))
    elif op in ("sdrop", "cdrop"):
        (rig.c2s if op[0] == "s" else rig.s2c).clear()
        (rig.c_sent if op[0] == "s" else rig.s_sent).clear()
    else:
        raise C.MachineryError(f"unknown Pair op {op}")
    dst = e["dst"]
    if rig.c.state.name != dst["c"]["st"] or rig.s.state.name != dst["s"]["st"]:
        diffs.append(("C11", f"state/{op}/{call.get('k')}", f"after {op} {call.get('k')}: client {rig.c.state.name} / server {rig.s.state.name}, model {dst['c']['st']} / {dst['s']['st']}"))
    elif not diffs and dst["cob"] == dst["sob"] == dst["c2s"] == dst["s2c"] == 0:
        diffs += agreement(rig, dst)
    return diffs


def client_inprogress(c: t.Any, ids: t.Iterable[int]) -> t.Tuple[t.Set[int], t.Set[int]]:
    """Behavioural observation: (operations in progress, those that are searches)."""
    import sansldap as s
    import sansldap._messages as M

    out, srch = set(), set()
    if c.state.name == "CLOSED":
        return out, srch
    opts = M.PackingOptions()
    for i in ids:
        probe = M.ExtendedResponse(i, [], M.LDAPResult(M.LDAPResultCode(0), "", "", None), None, None).pack(opts)
        k = copy.deepcopy(c)
        try:
            k.receive(probe)
        except s.ProtocolError:
            continue
        out.add(i)
        try:
            k.receive(probe)
            srch.add(i)
        except s.ProtocolError:
            pass
    return out, srch


def server_inprogress(sv: t.Any, ids: t.Iterable[int]) -> t.Set[int]:
    import sansldap as s

    out = set()
    if sv.state.name == "CLOSED":
        return out
    for i in ids:
        k = copy.deepcopy(sv)
        try:
            if k.state.name == "BINDING":
                k.bind_response(i, result_code=s.LDAPResultCode.SASL_BIND_IN_PROGRESS)
            else:
                k.search_result_entry(i, "", [])
            out.add(i)
        except s.LDAPError:
            pass
    return out


def agreement(rig: PairRig, dst: t.Dict[str, t.Any]) -> t.List[t.Tuple[str, str, str]]:
    ids = range(0, 6)
    cout, csrch = client_inprogress(rig.c, ids)
    sout = server_inprogress(rig.s, ids)
    diffs = []
    op = lambda st: "OPENED" if st == "BEFORE_OPEN" else st  # noqa: E731
    if op(rig.c.state.name) != op(rig.s.state.name):
        diffs.append(("C11", "agreement/state", f"all bytes delivered: client is {rig.c.state.name}, server is {rig.s.state.name}"))
    if cout != sout:
        diffs.append(("C11", "agreement/in-progress", f"all bytes delivered: client has {sorted(cout)} in progress, server has {sorted(sout)}"))
    if cout != set(dst["c"]["out"]) or csrch != set(dst["c"]["srch"]):
        diffs.append(("C09", "in-progress/client", f"client has {sorted(cout)} in progress (searches {sorted(csrch)}), the model has {dst['c']['out']} ({dst['c']['srch']})"))
    if sout != set(dst["s"]["out"]):
        diffs.append(("C10", "in-progress/server", f"server answers {sorted(sout)}, the model has {dst['s']['out']} outstanding"))
    return diffs


def overaccept(rig: PairRig, src: t.Dict[str, t.Any], rnd: random.Random) -> t.List[t.Tuple[str, str, str]]:
    """C11 speaks of applications that make the calls *their session accepts*.  Where the real client accepts a request
    that the model's client refuses in this state (a bind with operations outstanding, anything but a bind while
    BINDING), the consequences are played out on a copy of the pair with accepted calls only: everything in flight is
    delivered, the server answers every request in progress with a final success response of the matching kind (skipping
    any its session refuses), everything is delivered back.  A protocol error on the way or a disagreement at quiescence
    is then a C11 violation; an over-accepted call without such a consequence is left to C08 / C10."""
    import sansldap as s

    cabs = src["c"]
    if cabs["st"] == "CLOSED" or rig.c.state.name == "CLOSED" or rig.s.state.name == "CLOSED":
        return []
    diffs: t.List[t.Tuple[str, str, str]] = []
    for k in ("bindReq", "searchReq", "extReq"):
        refused = bool(cabs["out"]) if k == "bindReq" else cabs["st"] == "BINDING"
        if not refused:
            continue
        r2 = copy.deepcopy(rig)
        r2.rnd = rnd
        obs = sess.invoke(r2.c, "client", {"op": "send", "k": k, "id": 0}, rnd)
        if obs["res"] != "ok":
            continue
        kinds = {m.message_id: proj.kind_of(m) for m, _ in r2.returned if proj.kind_of(m) in ("bindReq", "searchReq", "extReq")}
        problem = ""
        try:
            stage = "server.receive"
            for m in r2.s.receive(b"".join(r2.c2s) + bytes(r2.c.data_to_send())):
                kinds[m.message_id] = proj.kind_of(m)
            stage = "client.receive"
            r2.c.receive(b"".join(r2.s2c) + bytes(r2.s.data_to_send()))
            for i in sorted(server_inprogress(r2.s, range(0, 8))):
                if r2.s.state.name == "CLOSED" or r2.c.state.name == "CLOSED":
                    break
                try:
                    kk = kinds.get(i)
                    if kk == "bindReq":
                        r2.s.bind_response(i)
                    elif kk == "searchReq":
                        r2.s.search_result_done(i)
                    elif kk == "extReq":
                        r2.s.extended_response(i)
                    else:
                        continue
                except s.LDAPError:
                    continue
                stage = "client.receive"
                r2.c.receive(bytes(r2.s.data_to_send()))
        except s.ProtocolError as ex:
            problem = f"{stage} raised ProtocolError: {str(ex)[:120]}"
        except Exception as ex:  # noqa: BLE001
            problem = f"{stage} raised {type(ex).__name__}: {str(ex)[:120]}"
        if not problem:
            opn = lambda st: "OPENED" if st == "BEFORE_OPEN" else st  # noqa: E731
            if opn(r2.c.state.name) != opn(r2.s.state.name):
                problem = f"all bytes delivered and every request answered: client is {r2.c.state.name}, server is {r2.s.state.name}"
            else:
                cout, _ = client_inprogress(r2.c, range(0, 8))
                sout = server_inprogress(r2.s, range(0, 8))
                if cout != sout:
                    problem = f"all bytes delivered and every request answered: client has {sorted(cout)} in progress, server has {sorted(sout)}"
        if problem:
            diffs.append(("C11", f"over-accepted-call/{k}", f"the client (model state {cabs['st']}, in progress {cabs['out']}) accepts a {k} that the documented state machine refuses; "
                          f"continuing with accepted calls only: {problem}"))
    return diffs


# ------------------------------------------------------------------------------------------------------------------
_G: t.Dict[str, t.Any] = {}


def kkey(x: t.Any) -> str:
    return json.dumps(x, sort_keys=True)


def _work(args: t.Tuple[int, int, int]) -> t.List[t.Any]:
    wid, nw, seed = args
    rnd = random.Random(seed * 104729 + wid)
    out = []
    n = 0
    for j, (k, edges) in enumerate(_G["bysrc"].items()):
        if j % nw != wid or k not in _G["real"]:
            continue
        base = _G["real"][k]
        if edges:
            d0 = overaccept(base, edges[0]["src"], rnd)
            if d0:
                out.append(({"op": "overaccept", "src": edges[0]["src"]}, d0))
        for e in edges:
            rig = copy.deepcopy(base)
            rig.rnd = rnd
            n += 1
            d = step(rig, e)
            if d:
                out.append(({k2: v for k2, v in e.items() if k2 not in ("srck", "dstk")}, d))
    return [n, out]


def replay(rep: C.Report, w: int, edges: t.List[t.Dict[str, t.Any]], seed: int, walks: int, walk_len: int) -> None:
    rnd = random.Random(seed)
    bysrc: t.Dict[str, t.List[t.Any]] = collections.OrderedDict()
    for e in edges:
        e["_sk"] = kkey(e["srck"])
        e["_dk"] = kkey(e["dstk"])
        bysrc.setdefault(e["_sk"], []).append(e)
    indeg = {e["_dk"] for e in edges}
    roots = [k for k in bysrc if k not in indeg] or [next(iter(bysrc))]
    k0 = roots[0]
    real: t.Dict[str, t.Any] = {k0: PairRig(w, rnd)}
    dq = collections.deque([k0])
    while dq:
        k = dq.popleft()
        for e in bysrc.get(k, []):
            if e["_dk"] in real:
                continue
            rig = copy.deepcopy(real[k])
            rig.rnd = rnd
            if not step(rig, e):
                real[e["_dk"]] = rig
                dq.append(e["_dk"])
    _G.update(bysrc=bysrc, real=real)
    nw = min(C.NCPU, max(1, len(edges) // 3000))
    if nw > 1:
        with mp.get_context("fork").Pool(nw) as pool:
            results = pool.map(_work, [(x, nw, seed) for x in range(nw)])
    else:
        results = [_work((0, 1, seed))]
    done = sum(r[0] for r in results)
    for r in results:
        for e, diffs in r[1]:
            for prop, sig, text in diffs:
                rep.violation(sig, text, {"edge": e}, prop=prop)
    steps = 0
    for _ in range(walks):
        rig = PairRig(w, rnd)
        k = k0
        hist = []
        for _ in range(walk_len):
            es = bysrc.get(k)
            if not es:
                break
            e = rnd.choice(es)
            hist.append(e["call"])
            steps += 1
            d = step(rig, e)
            if d:
                for prop, sig, text in d:
                    rep.violation(sig, text + f" [random walk, {len(hist)} steps]", {"history": hist}, prop=prop)
                break
            k = e["_dk"]
    rep.traces += done + steps
    rep.evaluations += len(edges)
    rep.distinct.update(f"pair:{e['_sk']}:{kkey(e['call'])}" for e in edges)
    rep.add_part(f"spec->code replay of Pair.tla (W={w})", abstract_states=len(bysrc), reached_on_real_code=len(real), edges=len(edges), edges_executed=done,
                 random_walks=walks, random_walk_steps=steps)
    for e in edges[:: max(1, len(edges) // 3)][:3]:
        rep.sample({"engine": "pair", "call": e["call"], "src": e["src"], "dst": e["dst"]})


def directed_pipelines(rep: C.Report, seed: int) -> None:
    """Two messages sent back to back in one direction, delivered in three pieces: the first piece ends inside the first
    message, the second completes it and ends 1-6 octets into the second message's header, the third brings the rest.
    Enumerated over the size classes (short-form, one-octet and two-octet long-form outer length) of both messages and
    over the cut positions; every call is accepted and every response matches its request (C11's premise).  This is the
    Pair.tla behaviour  call, call, drain, deliver k, deliver W, deliver rest  with the slicing of the messages chosen
    on purpose instead of at random."""
    import sansldap as s

    rnd = random.Random(seed * 7 + 1)
    sizes = {"short": 20, "long1": 150, "long2": 400}
    n = 0

    def pad(k: int) -> bytes:
        return bytes(rnd.randrange(256) for _ in range(k))

    for da, sa in sizes.items():
        for db, sb in sizes.items():
            for c1 in (2, 3, 4, 6, "mid"):
                for c2 in (1, 2, 3, 4, 5, 6):
                    for direction in ("c2s", "s2c"):
                        c, srv = s.LDAPClient(), s.LDAPServer()
                        try:
                            if direction == "c2s":
                                ida = c.extended_request("1.2.3", pad(sa))
                                a = c.data_to_send()
                                idb = c.extended_request("1.2.4", pad(sb))
                                b = c.data_to_send()
                                rx, want = srv, [("extReq", ida), ("extReq", idb)]
                            else:
                                ida = c.search_request("dc=x")
                                srv.receive(c.data_to_send())
                                srv.search_result_entry(ida, "cn=a", [s.PartialAttribute("v", [pad(sa)])])
                                a = srv.data_to_send()
                                srv.search_result_done(ida, diagnostics_message="d" * sb)
                                b = srv.data_to_send()
                                rx, want = c, [("entry", ida), ("done", ida)]
                            p1 = len(a) // 2 if c1 == "mid" else min(c1, len(a) - 1)
                            p2 = min(c2, len(b) - 1)
                            got = []
                            for piece in (a[:p1], a[p1:] + b[:p2], b[p2:]):
                                buf = bytearray(piece)
                                got += list(rx.receive(buf))
                                buf[:] = b"\xaa" * len(buf)
                            have = [(proj.kind_of(m), m.message_id) for m in got]
                        except Exception as ex:  # noqa: BLE001
                            rep.violation(f"spurious-error/directed/{direction}", f"two pipelined messages ({da}, {db}) cut at {c1} / {c2}: {type(ex).__name__}: {ex}",
                                          {"direction": direction, "sizes": [da, db], "cuts": [c1, c2]})
                            continue
                        n += 1
                        rep.case(("directed", direction, da, db, c1, c2))
                        if have != want:
                            rep.violation(f"returned-messages/directed/{direction}/{'fewer' if len(have) < len(want) else 'different'}",
                                          f"two pipelined messages ({da} {len(a)} octets, {db} {len(b)} octets) delivered as [{p1}], [rest + {p2}], [rest]: received {have}, sent {want}",
                                          {"direction": direction, "sizes": [len(a), len(b)], "cuts": [p1, p2]})
    rep.traces += n
    rep.add_part("directed pipelining (two messages, three pieces, cut positions and size classes enumerated)", cases=n)


PAIR_INVS = ["NoHeldBackUnit", "Agreement", "StreamsWellFormed", "ChunkingConfluence"]
PAIR_PROPS = ["NoSpuriousError", "HopConservationS", "HopConservationC", "DrainConservation"]


def pair_cfg(path: str, w: int, max_id: int, max_pipe: int, max_ob: int, emit: bool) -> None:
    with open(path, "w") as f:
        f.write(f"CONSTANTS\n  W = {w}\n  MaxId = {max_id}\n  MaxPipe = {max_pipe}\n  MaxOb = {max_ob}\nSPECIFICATION Spec\nVIEW View\nCHECK_DEADLOCK FALSE\n")
        if emit:
            f.write("ACTION_CONSTRAINT Emit\n")
        else:
            for i in PAIR_INVS:
                f.write(f"INVARIANT {i}\n")
            for p in PAIR_PROPS:
                f.write(f"PROPERTY {p}\n")


def run_pair(rep: C.Report, wd: str, tier: str, seed: int) -> None:
    mc = [(2, 2, 4, 4)] if tier == "quick" else [(2, 3, 6, 4), (3, 2, 6, 6)]   # (3, 3, 9, 6) exceeds 5e7 states in 10 min
    # (2, 1, 4, 4): one request, but room for it and an unbind in the outgoing buffer (closure with output still queued)
    em = [(2, 2, 2, 2), (2, 1, 4, 4)] if tier == "quick" else [(2, 2, 2, 2), (2, 1, 4, 4), (3, 2, 3, 3), (2, 2, 2, 4)]
    jobs = []
    for j, (w, mi, mp_, mo) in enumerate(mc):
        p = os.path.join(wd, f"pair-mc-{j}.cfg")
        pair_cfg(p, w, mi, mp_, mo, emit=False)
        jobs.append(dict(module="Pair", cfg=p, wd=wd, workers=max(2, C.NCPU // (len(mc) + len(em))), tag=f"pairmc{j}", heap="12g", timeout=3000))
    for j, (w, mi, mp_, mo) in enumerate(em):
        p = os.path.join(wd, f"pair-em-{j}.cfg")
        pair_cfg(p, w, mi, mp_, mo, emit=True)
        jobs.append(dict(module="PairEmit", cfg=p, wd=wd, workers=1, tag=f"pairem{j}", heap="12g", timeout=3000))
    directed_pipelines(rep, seed)
    res = C.run_tlc_parallel(jobs)
    for j, (w, mi, mp_, mo) in enumerate(mc):
        rep.add_tlc(f"Pair.tla W={w} MaxId={mi} MaxPipe={mp_} MaxOb={mo}: {', '.join(PAIR_INVS + PAIR_PROPS)}", res[j], exhaustive=True)
    for j, (w, mi, mp_, mo) in enumerate(em):
        edges = res[len(mc) + j].json_cases("EDGE")
        if not edges:
            raise C.MachineryError("no Pair edges emitted")
        replay(rep, w, edges, seed + j, walks=2500 if tier == "quick" else 30000, walk_len=80)
