from .c05 import run as _run


def run(tier: str, seed: int) -> int:
    return _run(tier, seed, "C06")
