from .filt import run_c15 as run  # noqa: F401
