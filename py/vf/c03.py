from .codec import run_c03 as run  # noqa: F401
