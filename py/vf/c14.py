from .filt import run_c14 as run  # noqa: F401
