from .drain import run  # noqa: F401
