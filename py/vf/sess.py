"""Session engine: spec -> code replay of spec/Session.tla on real LDAPClient / LDAPServer objects (C08 C09 C10).

TLC model-checks Session.tla (all action properties) and, through SessionEmit, prints every transition
``(src, call, dst)``.  The replayer is a black-box conformance tester: it executes the call of every edge on a real
session object that stands in the edge's source state and compares what the *public API* shows - exception class,
returned id / returned messages, the octets newly queued (drained completely after each call) and ``state`` - with the
edge.  The abstract destination is adopted only when everything matched, so hidden divergence of the real object
(in-progress bookkeeping, id counter) surfaces as an outcome mismatch of a later edge.  Private attributes are read for
diagnostics only.

Two walks over the emitted graph: (1) breadth first, one representative real object per abstract state, every edge
executed once; (2) seeded random walks (long paths) for path-dependent defects.
"""
from __future__ import annotations

import collections
import copy
import json
import multiprocessing as mp
import os
import random
import typing as t

from . import common as C
from . import msggen, proj

NOTICE = proj.NOTICE_OID


# ------------------------------------------------------------------------------------------------------------------
# concrete messages for abstract descriptors
# ------------------------------------------------------------------------------------------------------------------
def concrete(kind: str, mid: int, rnd: random.Random) -> t.Any:
    """A real message of the given abstract kind and id with seeded random content."""
    import sansldap as s

    if kind in ("bindReq", "searchReq", "extReq", "entry", "done", "ref", "unbind"):
        return msggen.r_message(rnd, kinds=[kind], mid=mid)
    if kind in ("bindRespOk", "bindRespProg"):
        m = msggen.r_message(rnd, kinds=["bindResp"], mid=mid)
        code = 14 if kind == "bindRespProg" else rnd.choice((0, 0, 49, 7, 8, 2, 53, 4096))
        res = s.LDAPResult(s.LDAPResultCode(code), m.result.matched_dn, m.result.diagnostics_message, m.result.referrals)
        return s.BindResponse(mid, m.controls, res, m.server_sasl_creds)
    if kind in ("extResp", "notice"):
        m = msggen.r_message(rnd, kinds=["extResp"], mid=mid)
        name = NOTICE if kind == "notice" else (None if rnd.random() < 0.5 else msggen.r_oid(rnd))
        return s.ExtendedResponse(mid, m.controls, m.result, name, m.value)
    raise ValueError(kind)


def _tlv(tag: int, content: bytes) -> bytes:
    n = len(content)
    if n < 128:
        l = bytes([n])
    else:
        b = n.to_bytes((n.bit_length() + 7) // 8, "big")
        l = bytes([0x80 | len(b)]) + b
    return bytes([tag]) + l + content


def _deep_not(n: int) -> bytes:
    """A SearchRequest whose filter is n nested NOT filters (beyond any recursion limit for large n)."""
    f = _tlv(0x87, b"cn")
    for _ in range(n):
        f = _tlv(0xA2, f)
    body = _tlv(4, b"") + _tlv(10, b"\x00") + _tlv(10, b"\x00") + _tlv(2, b"\x00") + _tlv(2, b"\x00") + _tlv(1, b"\x00") + f + _tlv(0x30, b"")
    return _tlv(0x30, _tlv(2, b"\x01") + _tlv(0x63, body))


def _nested_bad_filter(n: int) -> bytes:
    """A SearchRequest with an unknown filter choice under n NOT filters (the decoder fails deep inside nested filters)."""
    f = _tlv(0x9F, b"cn")
    for _ in range(n):
        f = _tlv(0xA2, f)
    body = _tlv(4, b"") + _tlv(10, b"\x00") + _tlv(10, b"\x00") + _tlv(2, b"\x00") + _tlv(2, b"\x00") + _tlv(1, b"\x00") + f + _tlv(0x30, b"")
    return _tlv(0x30, _tlv(2, b"\x01") + _tlv(0x63, body))


GARBAGE = [
    ("bad-outer-tag", lambda r: _tlv(0x04, b"\x00")),
    ("unknown-op", lambda r: _tlv(0x30, _tlv(2, b"\x01") + _tlv(0x6A, b""))),
    # every APPLICATION number the library does not implement (modify .. abandon, intermediate response = 25, above), with a
    # plausible body: a complete unit that must end in ProtocolError, never in silence
    ("undefined-op-any", lambda r: _tlv(0x30, _tlv(2, bytes([r.randrange(1, 100)])) + _tlv(0x60 | r.choice((6, 7, 8, 9, 10, 11, 12, 13, 14, 15, 16, 20, 21, 22, 25, 25, 25, 26, 30)),
                                                                                      r.choice((b"", _tlv(0x80, b"1.2.3") + _tlv(0x81, b"v"), _tlv(4, b"cn=x")))))),
    ("op-not-application", lambda r: _tlv(0x30, _tlv(2, b"\x01") + _tlv(0x04, b"x"))),
    ("interior-overrun", lambda r: _tlv(0x30, _tlv(2, b"\x01") + bytes([0x77, 0x05, 0x80, 0x01]))),
    ("zero-length-id", lambda r: _tlv(0x30, _tlv(2, b"") + _tlv(0x42, b""))),
    ("missing-op", lambda r: _tlv(0x30, _tlv(2, b"\x05"))),
    # an envelope with no components at all, its zero length in short and in long form: a complete unit (the outer length is
    # satisfied by no further octet), typically the last octets delivered
    ("empty-envelope", lambda r: r.choice((b"\x30\x00", b"\x30\x81\x00", b"\x30\x82\x00\x00", b"\x30\x84\x00\x00\x00\x00"))),
    ("paged-control-no-value", lambda r: _tlv(0x30, _tlv(2, b"\x01") + _tlv(0x77, _tlv(0x80, b"1.2")) + _tlv(0xA0, _tlv(0x30, _tlv(4, b"1.2.840.113556.1.4.319"))))),
    ("indefinite-length", lambda r: b"\x30\x80\x02\x01\x01\x00\x00"),
    ("bad-utf8", lambda r: _tlv(0x30, _tlv(2, b"\x01") + _tlv(0x77, _tlv(0x80, b"\xff\xfe")))),
    ("bad-enum", lambda r: _tlv(0x30, _tlv(2, b"\x01") + _tlv(0x63, _tlv(4, b"") + _tlv(10, b"\x09") + _tlv(10, b"\x00") + _tlv(2, b"\x00") + _tlv(2, b"\x00") + _tlv(1, b"\x00") + _tlv(0x87, b"cn") + _tlv(0x30, b"")))),
    ("nested-unknown-filter", lambda r: _nested_bad_filter(r.choice((3, 40, 60)))),
    ("unknown-filter", lambda r: _tlv(0x30, _tlv(2, b"\x01") + _tlv(0x63, _tlv(4, b"") + _tlv(10, b"\x00") + _tlv(10, b"\x00") + _tlv(2, b"\x00") + _tlv(2, b"\x00") + _tlv(1, b"\x00") + _tlv(0x9F, b"cn") + _tlv(0x30, b"")))),
]


# well-formed BER that the decoder may or may not survive (nesting beyond the interpreter's recursion limit): the
# outcome may be a message or a ProtocolError, so these are not "garbage" for the replay, only for the trace driver
def _huge_code(r: random.Random) -> bytes:
    """A SearchResultDone / ExtendedResponse / BindResponse whose resultCode needs 5-9 content octets (an unnamed code the
    library is free to accept or to reject - but only with its own error type)."""
    n = r.choice((2**32, 2**40 + 1, 2**63, 2**64 + 5, -(2**40)))
    content = n.to_bytes((n.bit_length() + 8) // 8, "big", signed=True)
    op = r.choice((0x65, 0x78, 0x61))
    return _tlv(0x30, _tlv(2, bytes([r.randrange(1, 4)])) + _tlv(op, _tlv(10, content) + _tlv(4, b"") + _tlv(4, r.choice((b"", b"diag")))))


def _huge_id(r: random.Random) -> bytes:
    """A well-formed response / request whose messageID has thousands of content octets (beyond the 4300-digit limit of
    int -> str conversion, which error texts may run into)."""
    n = r.choice((1800, 2500, 6000))
    content = bytes([r.randrange(1, 128)]) + bytes(r.randrange(256) for _ in range(n))
    op = r.choice((_tlv(0x78, _tlv(10, b"\x00") + _tlv(4, b"") + _tlv(4, b"")), _tlv(0x77, _tlv(0x80, b"1.2")), _tlv(0x65, _tlv(10, b"\x00") + _tlv(4, b"") + _tlv(4, b""))))
    return _tlv(0x30, _tlv(2, content) + op)


MAYBE = [
    ("deep-not-nesting", lambda r: _deep_not(r.choice((40, 400, 1200, 3000)))),
    ("huge-message-id", _huge_id),
    ("huge-result-code", _huge_code),
]


def garbage(rnd: random.Random) -> t.Tuple[str, bytes]:
    name, f = rnd.choice(GARBAGE)
    return name, f(rnd)


def encode_units(ms: t.Sequence[t.Dict[str, t.Any]], rnd: random.Random) -> t.Tuple[bytes, t.List[t.Any]]:
    import sansldap._messages as M

    out = b""
    objs: t.List[t.Any] = []
    for d in ms:
        if d["k"] == "garbage":
            name, b = garbage(rnd)
            out += b
            objs.append(name)
        else:
            m = concrete(d["k"], d["id"], rnd)
            out += m.pack(M.PackingOptions())
            objs.append(m)
    return out, objs


def decode_all(data: bytes) -> t.List[t.Any]:
    import sansldap._messages as M
    from sansldap.asn1 import ASN1Reader

    r = ASN1Reader(data)
    out = []
    while r:
        out.append(M.unpack_ldap_message(r, M.PackingOptions()))
    return out


# ------------------------------------------------------------------------------------------------------------------
# executing one abstract call on a real session
# ------------------------------------------------------------------------------------------------------------------
def do_call(sess: t.Any, role: str, call: t.Dict[str, t.Any], rnd: random.Random) -> t.Dict[str, t.Any]:
    """Execute the call, then drain completely.
    Returns the observation {res, ret, msgs (recv), emit: [descriptor], raw_emit, state, exc}."""
    obs = invoke(sess, role, call, rnd)
    raw = sess.data_to_send()
    obs["raw_emit"] = raw
    try:
        obs["emit"] = [{"k": proj.kind_of(m), "id": m.message_id} for m in decode_all(raw)]
    except Exception as e:  # noqa: BLE001
        obs["emit"] = [{"k": "undecodable", "id": -1}]
        obs["exc"] += f" | emitted octets undecodable: {type(e).__name__}"
    obs["state"] = sess.state.name
    return obs


def invoke(sess: t.Any, role: str, call: t.Dict[str, t.Any], rnd: random.Random) -> t.Dict[str, t.Any]:
    """Execute one abstract call on the real session without touching the outgoing buffer: {res, ret, msgs, exc}."""
    import sansldap as s

    op = call["op"]
    obs: t.Dict[str, t.Any] = {"res": "ok", "ret": 0, "msgs": [], "exc": ""}
    try:
        if op == "send" and role == "client":
            k = call["k"]
            ctl = msggen.r_controls(rnd)
            if k == "bindReq":
                v = rnd.randrange(3)
                if v == 0:
                    obs["ret"] = sess.bind_simple(msggen.r_text(rnd) or None, msggen.r_text(rnd) or None, controls=ctl)
                elif v == 1:
                    obs["ret"] = sess.bind_sasl(rnd.choice(("GSSAPI", "EXTERNAL", "", "GSS-SPNEGO")), None, msggen.r_opt_bytes(rnd), controls=ctl)
                else:
                    obs["ret"] = sess.bind(msggen.r_text(rnd), s.SimpleCredential(msggen.r_text(rnd)), controls=ctl)
            elif k == "searchReq":
                u_ = rnd.random()
                # RFC 4526: (&) and (|) - empty composites - are filters in their own right, not "no filter"
                flt = msggen.r_filter(rnd, 2) if u_ < 0.7 else None if u_ < 0.85 else s.FilterAnd([]) if u_ < 0.93 else s.FilterOr([])
                obs["intent"] = {"filter": proj.filter_to_abstract(flt if flt is not None else s.FilterPresent("objectClass"))}
                obs["ret"] = sess.search_request(msggen.r_text(rnd), rnd.randrange(3), rnd.randrange(4), abs(msggen.r_int(rnd)), abs(msggen.r_int(rnd)),
                                                 rnd.random() < 0.5, flt, [msggen.r_attr(rnd) for _ in range(rnd.randrange(3))], controls=ctl)
            else:
                obs["ret"] = sess.extended_request(msggen.r_oid(rnd), msggen.r_opt_bytes(rnd), controls=ctl)
        elif op == "send":
            k, i = call["k"], call["id"]
            ctl = msggen.r_controls(rnd)
            code = s.LDAPResultCode(rnd.choice((0, 0, 49, 32, 2, 80, 4096, 118, 123)))
            if k in ("bindRespOk", "extResp", "done"):
                obs["intent"] = {"code": int(code.value)}   # what the application asked to be sent (compared with what is queued)
            if k == "bindRespOk":
                obs["ret"] = sess.bind_response(i, sasl_creds=msggen.r_opt_bytes(rnd), result_code=code, matched_dn=msggen.r_text(rnd) or None, controls=ctl)
            elif k == "bindRespProg":
                obs["ret"] = sess.bind_response(i, sasl_creds=msggen.r_opt_bytes(rnd), result_code=s.LDAPResultCode.SASL_BIND_IN_PROGRESS, controls=ctl)
            elif k == "extResp":
                obs["ret"] = sess.extended_response(i, name=None if rnd.random() < 0.5 else msggen.r_oid(rnd), value=msggen.r_opt_bytes(rnd), result_code=code, controls=ctl)
            elif k == "notice":
                obs["ret"] = sess.extended_response(i, name=NOTICE, result_code=s.LDAPResultCode(rnd.choice((2, 52, 8, 80))), diagnostics_message=msggen.r_text(rnd) or None)
            elif k == "entry":
                pattrs = rnd.choice(([s.PartialAttribute(msggen.r_attr(rnd), [msggen.r_bytes(rnd)])], [s.PartialAttribute(msggen.r_attr(rnd), [])], [],
                                     [s.PartialAttribute("cn", [b"a", b"a"]), s.PartialAttribute("sn", [])]))
                obs["ret"] = sess.search_result_entry(i, msggen.r_text(rnd), pattrs, controls=ctl)
            elif k == "ref":
                obs["ret"] = sess.search_result_reference(i, [msggen.r_text(rnd)], controls=ctl)
            elif k == "done":
                obs["ret"] = sess.search_result_done(i, result_code=code, diagnostics_message=msggen.r_text(rnd) or None, controls=ctl)
            else:
                raise C.MachineryError(f"unknown send kind {k}")
        elif op == "unbind":
            sess.unbind()
        elif op == "recv":
            data, _ = encode_units(call["ms"], rnd)
            buf = bytearray(data)
            got = sess.receive(buf)
            for j in range(len(buf)):  # the caller may reuse its buffer
                buf[j] = 0xAA
            obs["ret"] = len(got)
            obs["msgs"] = [{"k": proj.kind_of(m), "id": m.message_id} for m in got]
        else:
            raise C.MachineryError(f"unknown op {op}")
    except C.MachineryError:
        raise
    except Exception as e:  # noqa: BLE001
        obs["res"] = C.exc_kind(e)
        obs["exc"] = f"{type(e).__name__}: {e}"[:200]
        obs["ret"] = 0
    return obs


def compare(role: str, edge: t.Dict[str, t.Any], obs: t.Dict[str, t.Any]) -> t.List[t.Tuple[str, str, str]]:
    """Differences between the edge and the observation as (property, signature, text)."""
    src, call, dst = edge["src"], edge["call"], edge["dst"]
    op = call["op"]
    diffs: t.List[t.Tuple[str, str, str]] = []
    closed = src["st"] == "CLOSED"
    where = f"{role} in {src['st']} {op}" + (f" {call.get('k')}" if op == "send" else "") + (f" id={call.get('id')}" if op == "send" and role == "server" else "")
    if op == "recv":
        where += " " + ",".join(f"{m['k']}:{m['id']}" for m in call["ms"])
    exp_res = call["res"]
    got_res = obs["res"]
    if got_res != exp_res:
        if got_res not in ("ok", "LDAPError", "ProtocolError"):
            prop = "C05" if op == "recv" else "C10"
            diffs.append((prop, f"foreign-exception/{role}/{op}/{got_res}", f"{where}: raised {obs['exc']} (library error types only)"))
            if op == "recv" and role == "client" and exp_res == "ProtocolError" and not closed:
                diffs.append(("C09", f"rejection-not-protocol-error/{got_res}", f"{where}: the response must be rejected with ProtocolError and the session closed; raised {obs['exc']}"))
        elif closed:
            diffs.append(("C08", f"closed-session-accepts/{role}/{op}", f"{where}: expected {exp_res}, got {got_res} on a CLOSED session"))
        elif op == "recv":
            prop = "C09" if role == "client" else "C08"
            diffs.append((prop, f"receive-acceptance/{role}/{src['st']}/{exp_res}->{got_res}", f"{where}: expected {exp_res}, got {got_res} {obs['exc']}"))
        else:
            if exp_res == "ok":
                prop = "C08"
            elif src["st"] == "BINDING" or (role == "client" and call.get("k") == "bindReq"):
                prop = "C08"
            else:
                prop = "C10"
            diffs.append((prop, f"send-acceptance/{role}/{src['st']}/{call.get('k', op)}/{exp_res}->{got_res}", f"{where}: expected {exp_res}, got {got_res} {obs['exc']}"))
    exp_emit = call["emit"]
    if got_res != "ok" and op != "recv" and obs["raw_emit"]:
        for prop_ in ("C12", "C10"):
            diffs.append((prop_, f"failed-call-queued-octets/{role}/{src['st']}/{call.get('k', op)}", f"{where}: the call raised {got_res} but {len(obs['raw_emit'])} octets were queued"))
    if obs["emit"] != exp_emit:
        if closed:
            prop = "C08"
        elif exp_res != "ok":
            prop = "C10"
        elif role == "client" and op == "send" and [m["k"] for m in obs["emit"]] == [m["k"] for m in exp_emit]:
            prop = "C09"  # right kind, wrong id on the wire
        else:
            prop = "C10" if exp_emit == [] else "C12"
        diffs.append((prop, f"emitted/{role}/{src['st']}/{op}/{call.get('k', '')}/{'refused' if exp_res != 'ok' else 'ok'}",
                      f"{where}: expected to queue {exp_emit}, observed {obs['emit']} ({len(obs['raw_emit'])} octets)"))
    if got_res == exp_res == "ok":
        if op == "send" and obs["ret"] != call["ret"]:
            diffs.append(("C09" if role == "client" else "C10", f"returned-id/{role}", f"{where}: returned id {obs['ret']}, expected {call['ret']}"))
        if op == "recv":
            if obs["msgs"] != call["ms"]:
                diffs.append(("C02", f"returned-messages/{role}", f"{where}: returned {obs['msgs']}"))
    if (obs["state"] != dst["st"] and role == "server" and op == "send" and src["st"] == "BEFORE_OPEN" and dst["st"] == "BEFORE_OPEN"
            and obs["state"] == "OPENED" and exp_res == got_res == "LDAPError" and obs["emit"] == []):
        # the one deviation the suite pins (tests/test_session.py::test_fail_server_responds_to_unknown_request)
        diffs.append(("C08", "refused-response-opens/server", f"{where}: the refused call moved the session BEFORE_OPEN -> OPENED although nothing was sent"))
    elif obs["state"] != dst["st"]:
        if op == "recv" and got_res not in ("ok", "LDAPError") and obs["state"] != "CLOSED" and not closed:
            diffs.append(("C05", f"fail-open/{role}/{src['st']}/{got_res}", f"{where}: receive raised {got_res} but the session is {obs['state']}, not CLOSED"))
        diffs.append(("C08", f"state/{role}/{src['st']}/{op}/{call.get('k', '')}/{exp_res}/{dst['st']}->{obs['state']}",
                      f"{where} ({exp_res}): state is {obs['state']}, the documented state machine gives {dst['st']}"))
    return diffs


def diag(sess: t.Any) -> t.Dict[str, t.Any]:
    return {"_outstanding_requests": sorted(getattr(sess, "_outstanding_requests", []) or []),
            "_search_requests": sorted(getattr(sess, "_search_requests", []) or []),
            "_message_counter": getattr(sess, "_message_counter", None)}


# ------------------------------------------------------------------------------------------------------------------
# graph walking
# ------------------------------------------------------------------------------------------------------------------
def skey(x: t.Dict[str, t.Any]) -> str:
    return json.dumps(x, sort_keys=True)


def new_session(role: str) -> t.Any:
    import sansldap

    return sansldap.LDAPClient() if role == "client" else sansldap.LDAPServer()


_G: t.Dict[str, t.Any] = {}


def _work(args: t.Tuple[int, int, int]) -> t.List[t.Any]:
    """Worker: execute the edges of the source states assigned to this worker (forked: _G is inherited)."""
    wid, nw, seed = args
    role = _G["role"]
    rnd = random.Random(seed * 7919 + wid)
    out = []
    n = 0
    for j, (k, edges) in enumerate(_G["bysrc"].items()):
        if j % nw != wid or k not in _G["real"]:
            continue
        base = _G["real"][k]
        for e in edges:
            if C.too_many_hangs():
                break
            s = copy.deepcopy(base)
            obs = do_call(s, role, e["call"], rnd)
            n += 1
            d = compare(role, e, obs)
            if d:
                out.append((e, {k2: v for k2, v in obs.items() if k2 != "raw_emit"} | {"raw_emit_hex": obs["raw_emit"].hex()[:400]}, d, diag(s)))
            elif e["call"]["res"] == "LDAPError" and e["src"]["st"] != "CLOSED":
                # a refused call has no effect: whatever the model allows next must behave as if it had not happened
                # directed: the next accepted send call (the id it returns and puts on the wire shows whether the refused call
                # consumed one), directly and after a delivery that retires an operation (a refused call must not have left a
                # phantom operation behind that keeps a bind from being accepted)
                sends = [x for x in edges if x["call"]["op"] == "send" and x["call"]["res"] == "ok"]
                retire = [x for x in edges if x["call"]["op"] == "recv" and x["call"]["res"] == "ok" and x["dst"]["st"] != "CLOSED"
                          and set(x["src"]["out"]) - set(x["dst"]["out"])]
                plans = [[x] for x in (sends if len(sends) <= 2 else rnd.sample(sends, 2))]
                for r_ in (retire if len(retire) <= 2 else rnd.sample(retire, 2)):
                    nxt = [x for x in _G["bysrc"].get(skey(r_["dst"]), []) if x["call"]["op"] == "send" and x["call"]["res"] == "ok"]
                    plans += [[r_, x] for x in (nxt if len(nxt) <= 2 else rnd.sample(nxt, 2))]
                for plan in plans:
                    sp = copy.deepcopy(s)
                    for idx, ep in enumerate(plan):
                        dp = compare(role, ep, do_call(sp, role, ep["call"], rnd))
                        n += 1
                        if dp:
                            s_ = copy.deepcopy(base)
                            if not any(compare(role, ef, do_call(s_, role, ef["call"], rnd)) for ef in plan[: idx + 1]):
                                what = f"{e['call'].get('k', e['call']['op'])}"
                                out.append((ep, {"after_refused": e["call"], "plan": [x["call"] for x in plan]},
                                            [("C10", f"refused-call-had-effect/{role}/{e['src']['st']}/{what}",
                                              f"{role} in {e['src']['st']}: the refused call {what} changed what later calls do ({dp[0][2]})")], diag(sp)))
                            break
                cur = k
                followed: t.List[t.Any] = []
                for _ in range(5):
                    es2 = _G["bysrc"].get(cur)
                    if not es2:
                        break
                    e2 = rnd.choice(es2 if rnd.random() < 0.3 else ([x for x in es2 if x["call"]["res"] == "ok" and x["dst"]["st"] != "CLOSED"] or es2))
                    obs2 = do_call(s, role, e2["call"], rnd)
                    followed.append(e2)
                    n += 1
                    d2 = compare(role, e2, obs2)
                    if d2:
                        d2 = [(p, sig, txt + f" [after the refused call {e['call'].get('k', e['call']['op'])} id={e['call'].get('id')}]") for p, sig, txt in d2]
                        # the same calls WITHOUT the refused one: if they behave as the model says, the refused call is what made
                        # the difference - it had an effect (C10), whatever property the symptom itself belongs to
                        s_ = copy.deepcopy(base)
                        if not any(compare(role, ef, do_call(s_, role, ef["call"], rnd)) for ef in followed):
                            what = f"{e['call'].get('k', e['call']['op'])}"
                            d2.append(("C10", f"refused-call-had-effect/{role}/{e['src']['st']}/{what}",
                                       f"{role} in {e['src']['st']}: the refused call {what} changed what later calls do ({d2[0][2]})"))
                        out.append((e2, {k2: v for k2, v in obs2.items() if k2 != "raw_emit"} | {"after_refused": e["call"]}, d2, diag(s)))
                        break
                    cur = skey(e2["dst"])
    # "late response" triples: an accepted call that leaves the abstract state unchanged (an entry for a search, a
    # reference, ...), then a call that retires an operation, then every call that names the retired id.  The model says
    # what each must do; an implementation that remembers something about the first call must not let it matter.
    for j, (k, edges) in enumerate(_G["bysrc"].items()):
        if j % nw != wid or k not in _G["real"]:
            continue
        src = edges[0]["src"]
        if src["st"] == "CLOSED":
            continue
        loops = [e for e in edges if e["call"]["res"] == "ok" and e["dst"] == src and e["call"]["op"] != "recv" or
                 (e["call"]["res"] == "ok" and e["dst"] == src and e["call"]["op"] == "recv" and len(e["call"]["ms"]) == 1)]
        retire = [e for e in edges if e["call"]["res"] == "ok" and e["dst"]["st"] != "CLOSED" and set(src["out"]) - set(e["dst"]["out"])]
        if not loops or not retire:
            continue
        for e1 in (loops if len(loops) <= 4 else rnd.sample(loops, 4)):
            for e2 in (retire if len(retire) <= 4 else rnd.sample(retire, 4)):
                gone = set(src["out"]) - set(e2["dst"]["out"])
                s0 = copy.deepcopy(_G["real"][k])
                if compare(role, e1, do_call(s0, role, e1["call"], rnd)) or compare(role, e2, do_call(s0, role, e2["call"], rnd)):
                    continue   # reported by the per-edge pass
                n += 2
                for e3 in _G["bysrc"].get(skey(e2["dst"]), []):
                    c3 = e3["call"]
                    named = (c3["op"] == "send" and c3.get("id") in gone) or (c3["op"] == "recv" and len(c3["ms"]) == 1 and c3["ms"][0]["id"] in gone)
                    if not named:
                        continue
                    s3 = copy.deepcopy(s0)
                    obs3 = do_call(s3, role, c3, rnd)
                    n += 1
                    d3 = compare(role, e3, obs3)
                    if d3:
                        hist = f" [after {e1['call'].get('k') or e1['call']['ms']} and then {e2['call'].get('k') or e2['call']['ms']}]"
                        out.append((e3, {k2: v for k2, v in obs3.items() if k2 != "raw_emit"} | {"history": [e1["call"], e2["call"]]},
                                    [(p_, sig, txt + hist) for p_, sig, txt in d3], diag(s3)))
    return [n, out]


def _walk_work(args: t.Tuple[int, int, int]) -> t.Tuple[int, t.List[t.Any]]:
    """Worker: `n` random walks from the initial state (forked: _G is inherited)."""
    wid, n, seed = args
    role, cat, k0, walk_len = _G["role"], _G["cat"], _G["k0"], _G["walk_len"]
    rnd = random.Random(seed * 104729 + wid * 31 + 5)
    steps = 0
    found: t.List[t.Any] = []
    for _w in range(n):
        if C.too_many_hangs():
            break
        s = copy.deepcopy(_G["first"])
        k = k0
        in_closed = 0
        for _ in range(walk_len):
            if k not in cat:
                break
            a, b, c = cat[k]
            u = rnd.random()
            pool = a if (u < 0.62 and a) else b if (u < 0.92 and b) else c if c else (a or b)
            if not pool:
                break
            e = rnd.choice(pool)
            if e["src"]["st"] == "CLOSED":
                in_closed += 1
                if in_closed > 3:
                    break
            obs = do_call(s, role, e["call"], rnd)
            steps += 1
            d = compare(role, e, obs)
            if d:
                for prop, sig, text in d:
                    found.append((sig, text + " [random walk]", {"role": role, "edge": e, "observed": {k2: v for k2, v in obs.items() if k2 != "raw_emit"}, "private": diag(s)}, prop))
                break
            k = skey(e["dst"])
    return steps, found[:200]


def shift_edge(e: t.Dict[str, t.Any], base: int, role: str) -> t.Dict[str, t.Any]:
    """The same transition for a session that is `base` operations old: every message id >= 1 is `base` higher (0 stays the
    id of unsolicited / unbind messages).  An aged client has necessarily been opened, so BEFORE_OPEN reads OPENED."""
    def sh(i: t.Any) -> t.Any:
        return i + base if isinstance(i, int) and not isinstance(i, bool) and i >= 1 else i

    def st(x: t.Dict[str, t.Any]) -> t.Dict[str, t.Any]:
        return {**x, "st": "OPENED" if (role == "client" and x["st"] == "BEFORE_OPEN") else x["st"], "out": [sh(i) for i in x["out"]],
                "srch": [sh(i) for i in x["srch"]], "ctr": x["ctr"] + base}

    c = dict(e["call"])
    if "id" in c:
        c["id"] = sh(c["id"])
    if "ms" in c:
        c["ms"] = [{**m, "id": sh(m["id"])} for m in c["ms"]]
    if "emit" in c:
        c["emit"] = [{**m, "id": sh(m["id"])} for m in c["emit"]]
    if c.get("op") == "send" and "ret" in c:
        c["ret"] = sh(c["ret"])
    return {"src": st(e["src"]), "call": c, "dst": st(e["dst"])}


def aged_session(role: str, base: int) -> t.Any:
    """A client that has completed `base` extended operations (its next message id is base + 1); servers have no counter."""
    import sansldap
    import sansldap._messages as M

    s = new_session(role)
    if role == "client" and base:
        ok = M.LDAPResult(M.LDAPResultCode(0), "", "", None)
        opts = M.PackingOptions()
        for j in range(base):
            i = s.extended_request("1.3.6.1.4.1.4203.1.11.3", None)
            if i != j + 1:
                raise C.MachineryError(f"ageing a client: request {j + 1} got id {i}")  # reported by the plain replay as well
            s.data_to_send()
            s.receive(M.ExtendedResponse(i, [], ok, None, None).pack(opts))
    return s


def replay_graph(rep: C.Report, role: str, edges: t.List[t.Dict[str, t.Any]], seed: int, walks: int, walk_len: int, base: int = 0) -> None:
    rnd = random.Random(seed)
    bysrc: t.Dict[str, t.List[t.Any]] = collections.OrderedDict()
    for e in edges:
        bysrc.setdefault(skey(e["src"]), []).append(e)
    init = {"st": "OPENED" if (base and role == "client") else "BEFORE_OPEN", "out": [], "srch": [], "ctr": 1 + base}
    k0 = skey(init)
    if k0 not in bysrc:
        raise C.MachineryError("initial state not among the emitted edges")
    # phase 1: one real representative per abstract state (breadth first over matching edges)
    try:
        first = aged_session(role, base)
    except C.MachineryError:
        raise
    except Exception as ex:  # noqa: BLE001  the library fails while a client is being aged: a verdict, not a crash
        rep.violation(f"long-lived/{role}/{type(ex).__name__}", f"{role}: operation number <= {base} on one session failed: {type(ex).__name__}: {ex}", {"base": base},
                      prop="C09" if role == "client" else "C08")
        return
    _G["first"] = first
    real: t.Dict[str, t.Any] = {k0: copy.deepcopy(first)}
    queue = collections.deque([k0])
    while queue:
        k = queue.popleft()
        for e in bysrc.get(k, []):
            kd = skey(e["dst"])
            if kd in real:
                continue
            s = copy.deepcopy(real[k])
            obs = do_call(s, role, e["call"], rnd)
            if not compare(role, e, obs):
                real[kd] = s
                queue.append(kd)
    unreached = [k for k in bysrc if k not in real]
    # ids whose content octets, read as an UNSIGNED number, are the id of an operation in progress (02 01 80 is -128, not 128):
    # such a response names an id that was never issued
    if base and role == "client":
        for k, s0 in list(real.items()):
            src = json.loads(k)
            if src["st"] == "CLOSED":
                continue
            for i in src["out"]:
                width = 1 if 128 <= i <= 255 else 2 if 32768 <= i <= 65535 else 0
                if not width:
                    continue
                alias = i - 256 ** width
                for kind in ("extResp", "done"):
                    pe = {"src": src, "call": {"op": "recv", "ms": [{"k": kind, "id": alias}], "res": "ProtocolError", "emit": [], "ret": 0},
                          "dst": {"st": "CLOSED", "out": [], "srch": [], "ctr": src["ctr"]}}
                    s1 = copy.deepcopy(s0)
                    for prop, sig, text in compare(role, pe, do_call(s1, role, pe["call"], rnd)):
                        rep.violation(sig, text + " [a negative message id whose content octets equal those of an id in progress]", {"role": role, "edge": pe}, prop=prop)
    # phase 2: every edge, in parallel
    _G.update(role=role, bysrc=bysrc, real=real)
    nw = min(C.NCPU, max(1, len(edges) // 2000))
    if nw > 1:
        ctx = mp.get_context("fork")
        with ctx.Pool(nw) as pool:
            results = pool.map(_work, [(w, nw, seed) for w in range(nw)])
    else:
        results = [_work((0, 1, seed))]
    done = sum(r[0] for r in results)
    for r in results:
        for e, obs, diffs, dg in r[1]:
            for prop, sig, text in diffs:
                rep.violation(sig, text, {"role": role, "edge": e, "observed": obs, "private": dg}, prop=prop)
    # phase 3: seeded random walks, biased away from the absorbing CLOSED state (in forked workers)
    cat: t.Dict[str, t.Tuple[t.List[t.Any], t.List[t.Any], t.List[t.Any]]] = {}
    for k, es in bysrc.items():
        cat[k] = ([e for e in es if e["dst"]["st"] != "CLOSED" and e["call"]["res"] == "ok"],
                  [e for e in es if e["dst"]["st"] != "CLOSED" and e["call"]["res"] != "ok"],
                  [e for e in es if e["dst"]["st"] == "CLOSED"])
    _G.update(cat=cat, k0=k0, walk_len=walk_len)
    nww = min(C.NCPU, max(1, walks // 100))
    share = [(w, walks // nww + (1 if w < walks % nww else 0), seed) for w in range(nww)]
    if nww > 1:
        with mp.get_context("fork").Pool(nww) as pool:
            wres = pool.map(_walk_work, share)
    else:
        wres = [_walk_work(share[0])]
    steps = sum(r[0] for r in wres)
    for r in wres:
        for sig, text, case, prop in r[1]:
            rep.violation(sig, text, case, prop=prop)
    rep.traces += done + steps
    for e in edges:
        rep.evaluations += 1
    rep.distinct.update(f"{role}:{skey(e['src'])}:{skey(e['call'])}" for e in edges)
    rep.add_part(f"spec->code replay ({role}" + (f", message ids shifted by {base}: a session that is {base} operations old" if base else "") + ")", abstract_states=len(bysrc), reached_on_real_code=len(real), unreached=len(unreached),
                 edges=len(edges), edges_executed=done, random_walks=walks, random_walk_steps=steps)
    if unreached:
        # a state the real code cannot be driven into: every path to it hit a mismatch (already reported above)
        rep.extra.setdefault("unreached_states", []).extend(json.loads(k) for k in unreached[:5])
    for e in edges[:: max(1, len(edges) // 3)][:3]:
        rep.sample({"role": role, "edge": e})


def lifecycle_configs(tier: str) -> t.List[t.Tuple[str, int, int]]:
    if tier == "quick":
        return [("client", 3, 1), ("client", 2, 2), ("server", 2, 1), ("server", 1, 2)]
    return [("client", 4, 1), ("client", 3, 2), ("server", 3, 1), ("server", 2, 2)]


PROPS = ["ClosedIsFinal", "BindingEntry", "BindingExit", "NoBindWhileBusy", "OnlyBindWhileBinding", "OpensOnFirstTraffic", "IdsMonotone",
         "AcceptIffInProgress", "SearchUntilDone", "ErrorCloses", "RefusedNoEffect", "RespondOnlyOpen"]


def write_cfg(path: str, role: str, max_id: int, max_chunk: int, emit: bool) -> None:
    with open(path, "w") as f:
        f.write(f'CONSTANTS\n  Role = "{role}"\n  MaxId = {max_id}\n  MaxChunk = {max_chunk}\nSPECIFICATION Spec\nVIEW ViewX\nCHECK_DEADLOCK FALSE\n')
        if emit:
            f.write("ACTION_CONSTRAINT Emit\n")
        else:
            f.write("INVARIANT TypeOK\n")
            for p in PROPS:
                f.write(f"PROPERTY {p}\n")


def run_lifecycle(rep: C.Report, wd: str, tier: str, seed: int, aged: bool = True) -> None:
    cfgs = lifecycle_configs(tier)
    jobs = []
    for role, mi, mc in cfgs:
        a = os.path.join(wd, f"mc-{role}-{mi}-{mc}.cfg")
        b = os.path.join(wd, f"emit-{role}-{mi}-{mc}.cfg")
        write_cfg(a, role, mi, mc, emit=False)
        write_cfg(b, role, mi, mc, emit=True)
        jobs.append(dict(module="Session", cfg=a, wd=wd, workers=2, tag=f"mc{role}{mi}{mc}"))
        jobs.append(dict(module="SessionEmit", cfg=b, wd=wd, workers=1, tag=f"em{role}{mi}{mc}", heap="8g"))
    res = C.run_tlc_parallel(jobs)
    for j, (role, mi, mc) in enumerate(cfgs):
        mc_res, em_res = res[2 * j], res[2 * j + 1]
        rep.add_tlc(f"Session.tla {role} MaxId={mi} MaxChunk={mc}: TypeOK + {len(PROPS)} action properties", mc_res, exhaustive=True)
        edges = em_res.json_cases("EDGE")
        if len(edges) + 1 < em_res.generated - 5 or not edges:
            raise C.MachineryError(f"emitted {len(edges)} edges for {em_res.generated} generated states")
        walks = (1500 if tier == "quick" else 20000) if mc == 1 else (500 if tier == "quick" else 6000)
        replay_graph(rep, role, edges, seed + j, walks=walks, walk_len=40)
        if mc == 1 and aged:
            # the same graph on sessions that are not new: message ids across the 127/128 and 255/256 boundaries of their
            # encodings (thorough: 65535/65536), and for a server ids up to maxInt = 2^31 - 1
            bases = ((126, 254) if tier == "quick" else (126, 254, 65534)) if role == "client" else (2**31 - 1 - (mi + 1), 126)
            for b_ in bases:
                replay_graph(rep, role, [shift_edge(e, b_, role) for e in edges], seed + 50 + j, walks=max(50, walks // 5), walk_len=40, base=b_)
    rep.rule = ("one case per transition (source state, call with arguments, outcome) of the Session.tla state graph, emitted by TLC and executed on a real session "
                "object; distinct by (role, source state, call label); plus seeded random walks through the same graph")
    rep.assumptions = ["D6: calls whose arguments cannot be encoded are outside the quantifier", "D11: data_to_send and register_* keep working on a CLOSED session",
                       "the abstract state of the real object is taken from the model while all observable outcomes match (black-box conformance)",
                       "the bytes queued by a call are classified with the library's own decoder (the codec is judged by C01/C03)"]


def run_inductive(rep: "C.Report", wd: str, tier: str) -> None:
    """Design level, unbounded message ids: Apalache proves IndInv inductive and the action properties of C05/C08/C09/C10
    on every step from any state of IndInv (spec/MC_SessionInd.tla); TLC checks that every SessionCore step is a
    SessionInd step (spec/SessionIndRef.tla), which carries the result over to the specification that is replayed on
    the code.  A failure here is a defect of the specifications, not of the library: MachineryError."""
    jobs = [dict(module="SessionIndRef", cfg=f"SessionIndRef_{role}.cfg", wd=wd, workers=4, tag="indref" + role) for role in ("client", "server")]
    for role, r in zip(("client", "server"), C.run_tlc_parallel(jobs)):
        rep.add_tlc(f"SessionIndRef {role}: SessionCore steps are SessionInd steps (ids 0..3)", r, exhaustive=True)
    steps = [("initial", ["--cinit=CInit", "--init=Init", "--inv=IndInv", "--length=0"]),
             ("inductive", ["--cinit=CInit", "--init=IndInit", "--inv=IndInv", "--length=1"]),
             ("action-properties", ["--cinit=CInit", "--init=IndInit", "--inv=ActionInv", "--length=1"])]
    from concurrent.futures import ThreadPoolExecutor

    with ThreadPoolExecutor(max_workers=3) as ex:
        futs = [(name, ex.submit(C.run_apalache, "MC_SessionInd", args, wd, tag=name)) for name, args in steps]
        for name, f in futs:
            ok, wall, out = f.result()
            if not ok:
                raise C.MachineryError(f"Apalache refutes SessionInd step '{name}' - the specification is wrong:\n" + "\n".join(out.splitlines()[-25:]))
            rep.add_part(f"Apalache MC_SessionInd {name}", engine="apalache", wall_s=round(wall, 2), exhaustive=True,
                         note="symbolic: arbitrary integer message ids, both roles; at most 6 operations in progress at the start of the step")


def run_prop(prop: str, tier: str, seed: int) -> int:
    C.use_repo()
    rep = C.Report(prop, tier, seed)
    wd = C.workdir(prop)
    try:
        run_lifecycle(rep, wd, tier, seed)
        if prop in ("C08", "C09", "C10"):
            run_inductive(rep, wd, tier)
        if prop in ("C10", "C12"):
            from . import drain

            drain.run_drain(rep, wd, tier, seed)
        from . import strace

        strace.run_traces(rep, wd, tier, seed)
        return rep.finish()
    finally:
        C.cleanup(wd)
