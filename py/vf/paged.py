"""Spec -> code replay of spec/Paged.tla (simple paged results, RFC 2696, as an application protocol over a real
LDAPClient and LDAPServer).

Every transition TLC emits for Paged (client page request, client abandon, server entry, server done with cookie,
client receive of a prefix of what is in flight) is executed on a real pair along seeded random walks of the emitted
state graph until every edge has been taken in context.  Cookie number n of the model is a seeded opaque octet string
(NULs, 0xFF, 1-40 octets); the server application looks its cursor up by the octets it *decoded* from the request, the
client application sends back the octets it *decoded* from the last done message - so a control value that is not
carried faithfully in either direction, an id that does not follow the model, an entry lost, duplicated or reordered
across pages, or a session that refuses a call the protocol needs shows up as a difference from the model's state.
"""
from __future__ import annotations

import json
import os
import random
import typing as t

from . import common as C

PAGED_INVS = ["TypeOK", "ExactlyOnceInOrder", "DoneIsComplete", "OneDoneLast", "CookieHonoured", "FlightIsNewest", "PageBound"]
PAGED_PROPS = ["IdsGrow", "GotGrows", "Answered"]


def _chunks(rnd: random.Random, b: bytes) -> t.List[bytes]:
    u = rnd.random()
    if u < 0.3 or len(b) < 2:
        return [b]
    if u < 0.5:
        return [b[i : i + 1] for i in range(len(b))]
    cuts = sorted(rnd.sample(range(1, len(b)), min(len(b) - 1, rnd.randint(1, 4))))
    return [b[a:z] for a, z in zip([0] + cuts, cuts + [len(b)])]


class Rig:
    def __init__(self, rnd: random.Random):
        import sansldap as s

        self.s = s
        self.rnd = rnd
        self.c = s.LDAPClient()
        self.srv = s.LDAPServer()
        self.cookie_bytes: t.Dict[int, bytes] = {0: b""}
        self.by_bytes: t.Dict[bytes, int] = {b"": 0}
        self.cur: bytes = b""  # what the client application holds (decoded octets)
        self.got: t.List[int] = []
        self.flight: t.List[bytes] = []
        self.req_seen: t.Optional[t.Tuple[int, int, int]] = None
        self.estimates: t.List[int] = []

    def cookie(self, n: int) -> bytes:
        if n not in self.cookie_bytes:
            r = self.rnd
            while True:
                kind = r.randrange(4)
                ln = r.choice((1, 2, 4, 8, 16, 40))
                if kind == 0:
                    b = bytes(r.randrange(256) for _ in range(ln))
                elif kind == 1:
                    b = b"\x00" * ln + bytes([n])
                elif kind == 2:
                    b = b"\xff" * ln + bytes([n])
                else:
                    b = bytes([0x30, 0x84, 0, 0, 0, n]) + bytes(r.randrange(256) for _ in range(ln))  # looks like BER
                if b not in self.by_bytes:
                    break
            self.cookie_bytes[n] = b
            self.by_bytes[b] = n
        return self.cookie_bytes[n]

    def feed(self, sess: t.Any, data: bytes) -> t.List[t.Any]:
        out: t.List[t.Any] = []
        for ch in _chunks(self.rnd, data):
            buf = bytearray(ch)
            out += list(sess.receive(buf))
            buf[:] = b"\xaa" * len(buf)  # the caller's buffer is reused: returned messages must not alias it
        return out


def step(rig: Rig, e: t.Dict[str, t.Any]) -> t.List[t.Tuple[str, str]]:
    s = rig.s
    call, dst = e["call"], e["dst"]
    op = call["op"]
    diffs: t.List[t.Tuple[str, str]] = []
    if op in ("cpage", "cabandon"):
        want_cookie = rig.cookie(call["cookie"])
        if rig.cur != want_cookie:
            diffs.append(("client-cookie", f"the client application holds {rig.cur!r}, the server handed out {want_cookie!r}"))
        crit = rig.rnd.random() < 0.5
        mid = rig.c.search_request("dc=paged", controls=[s.PagedResultControl(crit, call["size"], rig.cur)])
        if mid != call["id"]:
            diffs.append(("request-id", f"search_request returned id {mid}, the model {call['id']}"))
        msgs = rig.feed(rig.srv, rig.c.data_to_send())
        if len(msgs) != 1 or not isinstance(msgs[0], s.SearchRequest):
            diffs.append(("request-delivery", f"server received {[type(m).__name__ for m in msgs]}"))
            return diffs
        m = msgs[0]
        pc = [c for c in m.controls if isinstance(c, s.PagedResultControl)]
        if len(pc) != 1 or len(m.controls) != 1:
            diffs.append(("request-control", f"controls decoded by the server: {m.controls!r}"))
            return diffs
        if (m.message_id, pc[0].size, bytes(pc[0].cookie), pc[0].critical) != (call["id"], call["size"], rig.cur, crit):
            diffs.append(("request-control", f"server decoded id={m.message_id} size={pc[0].size} cookie={bytes(pc[0].cookie)!r} critical={pc[0].critical}; sent id={call['id']} size={call['size']} cookie={rig.cur!r} critical={crit}"))
        ck = rig.by_bytes.get(bytes(pc[0].cookie))
        if ck is None:
            diffs.append(("server-cookie", f"the server application does not know cookie {bytes(pc[0].cookie)!r}"))
            ck = -1
        rig.req_seen = (m.message_id, pc[0].size, ck)
        if rig.req_seen != (dst["req"]["id"], dst["req"]["size"], dst["req"]["cookie"]):
            diffs.append(("request-state", f"server sees request {rig.req_seen}, the model {dst['req']}"))
    elif op == "sentry":
        n = call["e"]
        rig.srv.search_result_entry(call["id"], f"cn=e{n},dc=paged", [s.PartialAttribute("n", [str(n).encode()])])
        rig.flight.append(bytes(rig.srv.data_to_send()))
    elif op == "sdone":
        est = rig.rnd.choice((0, 0, 1, 127, 128, 65535, 2**31 - 1))
        rig.estimates.append(est)
        rig.srv.search_result_done(call["id"], controls=[s.PagedResultControl(False, est, rig.cookie(call["cookie"]))])
        rig.flight.append(bytes(rig.srv.data_to_send()))
    elif op == "crecv":
        n = call["n"]
        data, rig.flight = b"".join(rig.flight[:n]), rig.flight[n:]
        msgs = rig.feed(rig.c, data)
        want = [x["k"] for x in e["src"]["flight"][:n]]
        have = ["entry" if isinstance(m, s.SearchResultEntry) else "done" if isinstance(m, s.SearchResultDone) else type(m).__name__ for m in msgs]
        if have != want:
            diffs.append(("response-delivery", f"client received {have}, in flight were {want}"))
        for m, x in zip(msgs, e["src"]["flight"][:n]):
            if m.message_id != x["id"]:
                diffs.append(("response-id", f"{type(m).__name__} carries id {m.message_id}, the model {x['id']}"))
            if isinstance(m, s.SearchResultEntry):
                try:
                    rig.got.append(int(bytes(m.attributes[0].values[0]).decode()))
                    if m.object_name != f"cn=e{rig.got[-1]},dc=paged":
                        diffs.append(("entry-value", f"entry {m.object_name!r} with value {rig.got[-1]}"))
                except Exception as ex:  # noqa: BLE001
                    diffs.append(("entry-value", f"{type(ex).__name__}: {ex}"))
            elif isinstance(m, s.SearchResultDone):
                pc = [c for c in m.controls if isinstance(c, s.PagedResultControl)]
                if len(pc) != 1 or len(m.controls) != 1:
                    diffs.append(("response-control", f"controls decoded by the client: {m.controls!r}"))
                else:
                    rig.cur = bytes(pc[0].cookie)
                    est = rig.estimates[-1] if rig.estimates else None
                    if pc[0].size != est or pc[0].critical:
                        diffs.append(("response-control", f"client decoded size={pc[0].size} critical={pc[0].critical}; sent size={est} critical=False"))
        if rig.got != dst["got"]:
            diffs.append(("entries", f"the client application has {rig.got}, the model {dst['got']}"))
        if rig.cur != rig.cookie(dst["cur"]):
            diffs.append(("client-cookie", f"the client application holds {rig.cur!r} after the receive, the model's cookie {dst['cur']} is {rig.cookie(dst['cur'])!r}"))
    else:
        raise C.MachineryError(f"unknown Paged step {op}")
    for name, sess in (("client", rig.c), ("server", rig.srv)):
        if sess.state.name != "OPENED":
            diffs.append((f"state/{name}", f"{name} session is {sess.state.name} in the middle of a paged search"))
    return diffs


def run_paged(rep: C.Report, wd: str, tier: str, seed: int) -> None:
    cfgs = ["Paged_q.cfg"] if tier == "quick" else ["Paged_q.cfg", "Paged_t.cfg"]
    for cfg in cfgs:
        r = C.run_tlc("Paged", cfg, wd, workers=4, tag="paged" + cfg, timeout=900)
        rep.add_tlc(f"Paged.tla {cfg}: {', '.join(PAGED_INVS + PAGED_PROPS)}", r, exhaustive=True)
    if tier == "quick":
        emit_cfg = os.path.join(C.SPEC, "PagedEmit_q.cfg")
    else:
        emit_cfg = os.path.join(wd, "paged-emit-t.cfg")
        with open(emit_cfg, "w") as f:
            f.write("CONSTANTS\n  N = 6\n  MaxPage = 4\n  MaxReq = 8\nSPECIFICATION Spec\nVIEW View\nCHECK_DEADLOCK FALSE\nACTION_CONSTRAINT Emit\n")
    r = C.run_tlc("PagedEmit", emit_cfg, wd, workers=1, tag="pagedem", timeout=900)
    edges = r.json_cases("EDGE")
    if not edges:
        raise C.MachineryError("no Paged edges emitted")
    succ: t.Dict[str, t.List[t.Dict[str, t.Any]]] = {}
    for e in edges:
        succ.setdefault(json.dumps(e["src"], sort_keys=True), []).append(e)
    init = next(k for k, v in succ.items() if v[0]["src"]["nextId"] == 1 and v[0]["src"]["cphase"] == "idle")
    todo = {(json.dumps(e["src"], sort_keys=True), json.dumps(e["call"], sort_keys=True)) for e in edges}
    total = len(todo)
    rnd = random.Random(seed * 31 + 5)
    walks = 0
    min_walks = 300 if tier == "quick" else 3000
    max_walks = 20000
    reported: t.Set[str] = set()
    # breadth-first tree of the emitted graph: a shortest edge path from the initial state to every state, used to steer a
    # walk to an edge that random choices have not reached yet
    parent: t.Dict[str, t.Optional[t.Tuple[str, t.Dict[str, t.Any]]]] = {init: None}
    queue = [init]
    while queue:
        k0 = queue.pop(0)
        for e0 in succ.get(k0, []):
            k1 = json.dumps(e0["dst"], sort_keys=True)
            if k1 not in parent:
                parent[k1] = (k0, e0)
                queue.append(k1)

    def path_to(k1: str) -> t.List[t.Dict[str, t.Any]]:
        out: t.List[t.Dict[str, t.Any]] = []
        while parent.get(k1) is not None:
            k0, e0 = parent[k1]  # type: ignore[misc]
            out.append(e0)
            k1 = k0
        return out[::-1]

    while (todo or walks < min_walks) and walks < max_walks:
        walks += 1
        rig = Rig(random.Random(rnd.randrange(1 << 30)))
        k = init
        path: t.List[t.Any] = []
        forced: t.List[t.Dict[str, t.Any]] = []
        if todo and walks % 2 == 0:
            tk, tc = sorted(todo)[0]
            forced = path_to(tk) + [e0 for e0 in succ[tk] if json.dumps(e0["call"], sort_keys=True) == tc][:1]  # a step enabled by two disjuncts is emitted twice
        while k in succ:
            opts = succ[k]
            fresh = [e for e in opts if (k, json.dumps(e["call"], sort_keys=True)) in todo]
            e = forced.pop(0) if forced else rnd.choice(fresh) if fresh and rnd.random() < 0.8 else rnd.choice(opts)
            path.append(e["call"])
            key = (k, json.dumps(e["call"], sort_keys=True))
            try:
                diffs = step(rig, e)
            except C.MachineryError:
                raise
            except Exception as ex:  # noqa: BLE001
                diffs = [(f"refused/{e['call']['op']}", f"{type(ex).__name__}: {ex}")]
            if key in todo:
                todo.discard(key)
                rep.case(("paged", key[0], key[1]))
            if diffs:
                for sig, what in diffs:
                    full = f"paged/{sig}"
                    if full not in reported:
                        reported.add(full)
                        rep.violation(full, f"paged search, step {len(path)} ({e['call']}): {what}", {"path": path})
                break
            k = json.dumps(e["dst"], sort_keys=True)
    if todo:
        raise C.MachineryError(f"{len(todo)} Paged edges never taken in {walks} walks")
    rep.traces += walks
    rep.add_part("Paged.tla spec -> code replay (paged search over a real client + server pair: cookies, page sizes, ids, entries exactly once in order)",
                 edges=total, walks=walks)
