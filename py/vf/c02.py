from . import common as C
from . import pair, strace


def run(tier: str, seed: int) -> int:
    C.use_repo()
    rep = C.Report("C02", tier, seed)
    wd = C.workdir("C02")
    try:
        pair.run_pair(rep, wd, tier, seed)
        strace.run_traces(rep, wd, tier, seed)
        rep.rule = ("spec->code: every transition of Pair.tla (deliveries of every length from every reachable state, W octets per message mapped to seeded real cut "
                    "positions); code->spec: recorded receive histories over accepted streams under whole / byte-wise / random / header-position / boundary cuts and every "
                    "two-piece cut of short streams, alternative outer length forms included; distinct by event content")
        rep.assumptions = ["D2: the chunking clauses judge streams the session accepts; streams with protocol violations are judged by C05/C08/C09",
                           "value equality of returned messages is the equality of their projections (vf/proj.py), compared as digests"]
        return rep.finish()
    finally:
        C.cleanup(wd)
