from . import common as C
from . import paged, pair


def run(tier: str, seed: int) -> int:
    C.use_repo()
    rep = C.Report("C11", tier, seed)
    wd = C.workdir("C11")
    try:
        pair.run_pair(rep, wd, tier, seed)
        paged.run_paged(rep, wd, tier, seed)
        rep.rule = ("one case per transition of the Pair.tla state graph (client call, server call, partial drain, partial delivery, drop) executed on a real "
                    "client+server pair; distinct by (abstract source state, step label); plus seeded random walks")
        rep.assumptions = ["applications make only calls their session accepts and answer with responses of the matching kind (the property's precondition)",
                           "nothing is fed to a CLOSED session; bytes in flight to it are dropped",
                           "operations in progress are observed behaviourally on clones (a probe response / response call is accepted iff in progress)"]
        return rep.finish()
    finally:
        C.cleanup(wd)
