"""C12 (and the wire clause of C10): spec -> code replay of spec/Drain.tla on real sessions.

Abstract octet <<m, j>> of an accepted message maps to the j-th of W non-empty segments of the message's real encoding
(segment boundaries are seeded: after the tag octet, inside the header, mid content, before the last octet), so an
abstract Drain(k) becomes a real data_to_send(amount) that ends at / inside / beyond real message boundaries.  The
expected stream is built independently of data_to_send: it is pack() of the message the call is documented to send.
"""
from __future__ import annotations

import collections
import copy
import json
import random
import typing as t

from . import common as C
from . import msggen, sess

ALL = 1000000
W = 3


class Rig:
    def __init__(self, role: str, rnd: random.Random, bulk: bool = False):
        import sansldap as s
        import sansldap._messages as M

        self.role = role
        self.bulk = bulk   # most messages are tens of kilobytes: the pending stream crosses 64 KiB, 128 KiB, ...
        self.rnd = rnd
        self.opts = M.PackingOptions()
        self.segs: t.Deque[bytes] = collections.deque()  # real segments pending, W per message
        if role == "server":
            self.s = s.LDAPServer()
            reqs = [M.SearchRequest(1, [], "dc=x", M.SearchScope.SUBTREE, M.DereferencingPolicy.NEVER, 0, 0, False, s.FilterPresent("cn"), []),
                    M.ExtendedRequest(2, [], "1.2.3", None),
                    M.SearchRequest(3, [], "", M.SearchScope.BASE, M.DereferencingPolicy.NEVER, 0, 0, False, s.FilterPresent("cn"), [])]
            self.s.receive(b"".join(r.pack(self.opts) for r in reqs))
        else:
            self.s = s.LDAPClient()
            self.s.extended_request("1.2.3")
            self.s.data_to_send()
        self.state0 = self.s.state

    def pending(self) -> bytes:
        return b"".join(self.segs)

    def split(self, b: bytes) -> t.List[bytes]:
        n = len(b)
        r = self.rnd
        c1 = r.choice((1, 1, 2, r.randrange(1, n - 1)))
        c2 = r.choice((n - 1, n - 1, r.randrange(c1 + 1, n)))
        if not 0 < c1 < c2 < n:
            c1, c2 = 1, n - 1
        return [b[:c1], b[c1:c2], b[c2:]]

    def send_ok(self) -> t.List[str]:
        import sansldap as s
        import sansldap._messages as M

        r = self.rnd
        ctl = msggen.r_controls(r)
        problems = []
        if self.bulk and r.random() < 0.6:
            big = bytes([r.randrange(256)]) * r.choice((20000, 40000, 70000, 140000))
            if self.role == "server":
                i = r.choice((1, 3))
                attrs = [M.PartialAttribute("x", [big])]
                ret = self.s.search_result_entry(i, "cn=big", attrs)
                exp = M.SearchResultEntry(i, [], "cn=big", attrs)
                if ret != i:
                    problems.append(f"response call returned {ret} for message id {i}")
            else:
                ret = self.s.extended_request("1.2.3.4", big)
                exp = M.ExtendedRequest(ret, [], "1.2.3.4", big)
            self.segs.extend(self.split(exp.pack(self.opts)))
            return problems
        if self.role == "server" and r.random() < 0.2:
            # a response whose kind does not match the request (id 2 is an extended request): the library may accept or
            # refuse it - C12 only says that the stream holds the message iff the call succeeded
            name = msggen.r_text(r)
            kind = r.randrange(2)
            try:
                if kind == 0:
                    self.s.search_result_entry(2, name, [], controls=ctl)
                    exp = M.SearchResultEntry(2, ctl or [], name, [])
                else:
                    self.s.search_result_reference(2, [name], controls=ctl)
                    exp = M.SearchResultReference(2, ctl or [], [name])
            except Exception:  # noqa: BLE001
                return problems   # the call failed: nothing of it may be in the stream (checked by the caller against pending())
            self.segs.extend(self.split(exp.pack(self.opts)))
            return problems
        if self.role == "server":
            k = r.randrange(3)
            if k == 0:
                name, attrs = msggen.r_text(r), [M.PartialAttribute(msggen.r_attr(r), [msggen.r_bytes(r)])]
                i = r.choice((1, 3))
                ret = self.s.search_result_entry(i, name, attrs, controls=ctl)
                exp = M.SearchResultEntry(i, ctl or [], name, attrs)
            elif k == 1:
                uris = [msggen.r_text(r)]
                i = r.choice((1, 3))
                ret = self.s.search_result_reference(i, uris, controls=ctl)
                exp = M.SearchResultReference(i, ctl or [], uris)
            else:
                i = r.choice((1, 3))
                name = msggen.r_text(r)
                ret = self.s.search_result_entry(i, name, [], controls=None)
                exp = M.SearchResultEntry(i, [], name, [])
            if ret != i:
                problems.append(f"response call returned {ret} for message id {i}")
        else:
            k = r.randrange(2)
            if k == 0:
                name, val = msggen.r_oid(r), msggen.r_opt_bytes(r)
                ret = self.s.extended_request(name, val, controls=ctl)
                exp = M.ExtendedRequest(ret, ctl or [], name, val)
            else:
                base, flt = msggen.r_text(r), msggen.r_filter(r, 1)
                ret = self.s.search_request(base, 1, 0, 5, 6, True, flt, ["cn"], controls=ctl)
                exp = M.SearchRequest(ret, ctl or [], base, M.SearchScope(1), M.DereferencingPolicy(0), 5, 6, True, flt, ["cn"])
        self.segs.extend(self.split(exp.pack(self.opts)))
        return problems

    def send_refused(self) -> t.Tuple[str, str]:
        """Make a send call that the session must refuse.  Returns (variant, exception kind or 'ok')."""
        import sansldap as s

        r = self.rnd
        if r.random() < 0.25:
            # a send call that fails while its message is being encoded (D6: outside C10, but C12 counts only the messages
            # whose send call succeeded, so nothing of it may reach the stream)
            try:
                if self.role == "server":
                    v = r.randrange(3)
                    if v == 0:
                        variant = "entry whose attribute value cannot be encoded"
                        self.s.search_result_entry(1, "cn=x", [s.PartialAttribute("cn", [b"ok", "not-bytes"])])  # type: ignore[list-item]
                    elif v == 1:
                        variant = "entry whose object name is not valid text"
                        self.s.search_result_entry(3, "cn=\udc80\ud800", [s.PartialAttribute("cn", [b"v"])])
                    else:
                        variant = "reference whose uri is not valid text"
                        self.s.search_result_reference(1, ["ldap://ok", "ldap://\ud800"])
                else:
                    v = r.randrange(2)
                    if v == 0:
                        variant = "search whose base object is not valid text"
                        self.s.search_request("dc=bad\ud800", filter=s.FilterEquality("cn", b"x"))
                    else:
                        variant = "extended request whose value cannot be encoded"
                        self.s.extended_request("1.2.3", value="not-bytes")  # type: ignore[arg-type]
                return variant, "ok"
            except s.LDAPError:
                return variant, "LDAPError"
            except Exception:  # noqa: BLE001
                return variant, "LDAPError"   # any failure is fine here; only the stream is judged
        try:
            if self.role == "server":
                v = r.randrange(4)
                if v == 0:
                    variant = "entry for an id that was never received"
                    self.s.search_result_entry(99, msggen.r_text(r), [], controls=msggen.r_controls(r))
                elif v == 1:
                    variant = "done for an id that was never received"
                    self.s.search_result_done(77)
                elif v == 2:
                    variant = "extended response for message id 0"
                    self.s.extended_response(0, value=msggen.r_bytes(r))
                else:
                    variant = "bind response for an id that was never received"
                    self.s.bind_response(12345, sasl_creds=msggen.r_bytes(r))
            else:
                variant = "bind while operations are outstanding"
                self.s.bind_simple(msggen.r_text(r), msggen.r_text(r))
            return variant, "ok"
        except Exception as e:  # noqa: BLE001
            return variant, C.exc_kind(e)

    def drain(self, k: int) -> t.Tuple[t.Optional[int], bytes, bytes]:
        """abstract amount k (octets of the model) -> real call; returns (real amount, returned, expected)."""
        pend = len(self.segs)
        if k == ALL:
            amount = None
            take = pend
        elif k <= pend:
            take = k
            amount = sum(len(self.segs[j]) for j in range(k))
        else:
            take = pend
            amount = len(self.pending()) + self.rnd.choice((1, 2, 7, 1000, 10**9)) * (k - pend)
        exp = b"".join(self.segs.popleft() for _ in range(take))
        got = self.s.data_to_send(amount)
        return amount, got, exp


def step(rig: Rig, edge: t.Dict[str, t.Any]) -> t.List[t.Tuple[str, str, str]]:
    op = edge["call"]["op"]
    diffs: t.List[t.Tuple[str, str, str]] = []
    st0 = rig.s.state
    if op == "sendOk":
        try:
            for p in rig.send_ok():
                diffs.append(("C10", f"returned-id/{rig.role}", p))
        except Exception as e:  # noqa: BLE001
            diffs.append(("C11", f"accepted-call-refused/{rig.role}", f"a call the session must accept raised {type(e).__name__}: {e}"))
            return diffs
    elif op == "sendRefused":
        variant, kind = rig.send_refused()
        if kind != "LDAPError":
            diffs.append(("C10", f"refusal/{rig.role}/{kind}", f"{variant}: expected LDAPError, got {kind}"))
    else:
        amount, got, exp = rig.drain(edge["call"]["k"])
        if got != exp:
            what = "fewer" if len(got) < len(exp) else "more" if len(got) > len(exp) else "different"
            diffs.append(("C12", f"drain-returns/{rig.role}/{what}", f"data_to_send({amount}) returned {len(got)} octets {got[:24].hex()}.., expected {len(exp)} octets {exp[:24].hex()}.."))
        if not isinstance(got, bytes):
            diffs.append(("C12", f"drain-type/{rig.role}", f"data_to_send returned {type(got).__name__}"))
        if rig.s.state != st0:
            diffs.append(("C12", f"drain-changes-state/{rig.role}", f"state {st0.name} -> {rig.s.state.name} by data_to_send"))
        kept = rig.__dict__.setdefault("kept", [])
        try:
            kept.append((got, bytes(got)))
        except Exception:  # noqa: BLE001
            pass
    # octets handed to the transport are the caller's: nothing the session does later may change them
    for obj, snap in rig.__dict__.get("kept", [])[-6:]:
        try:
            same = bytes(obj) == snap
        except Exception:  # noqa: BLE001
            same = False
        if not same:
            diffs.append(("C12", f"returned-chunk-changed/{rig.role}", f"octets returned by an earlier data_to_send changed after {op}"))
            rig.__dict__["kept"] = []
            break
    # what is queued now, observed on a clone so that the walk is not disturbed
    q = copy.deepcopy(rig.s).data_to_send()
    if q != rig.pending():
        # octets of a refused call in the stream break C10 (refused calls have no wire effect) and C12 (the stream is
        # exactly the accepted messages) alike
        for prop in (("C10", "C12") if op == "sendRefused" else ("C12",)):
            diffs.append((prop, f"pending-after-{op}/{rig.role}", f"after {op}: {len(q)} octets queued, expected {len(rig.pending())} (first difference at "
                          f"{next((j for j in range(min(len(q), len(rig.pending()))) if q[j] != rig.pending()[j]), min(len(q), len(rig.pending())))})"))
        # resynchronise on what is really queued so that one divergence is reported once
    return diffs


def vkey(x: t.Dict[str, t.Any]) -> str:
    return json.dumps(x, sort_keys=True)


def replay(rep: C.Report, edges: t.List[t.Dict[str, t.Any]], seed: int, walks: int, walk_len: int) -> None:
    bysrc: t.Dict[str, t.List[t.Any]] = collections.OrderedDict()
    for e in edges:
        bysrc.setdefault(vkey(e["src"]), []).append(e)
    k0 = vkey({"n": 0, "pend": 0, "nref": 0})
    # BFS tree: path of edges to every abstract state
    path: t.Dict[str, t.List[t.Any]] = {k0: []}
    dq = collections.deque([k0])
    while dq:
        k = dq.popleft()
        for e in bysrc.get(k, []):
            kd = vkey(e["dst"])
            if kd not in path:
                path[kd] = path[k] + [e]
                dq.append(kd)
    executed = 0
    for role in ("server", "client"):
        rnd = random.Random(seed * 31 + (1 if role == "server" else 2))
        # every edge once, reached through the BFS-tree path
        for e in edges:
            rig = Rig(role, rnd)
            bad = False
            for pe in path[vkey(e["src"])]:
                if step(rig, pe):
                    bad = True  # reported when that edge itself is the target
                    break
            if bad:
                continue
            executed += 1
            for prop, sig, text in step(rig, e):
                rep.violation(sig, f"{role}: {text} [history: {' '.join(x['call']['op'] + (':' + str(x['call']['k']) if x['call']['op'] == 'drain' else '') for x in path[vkey(e['src'])] + [e])}]",
                              {"role": role, "history": path[vkey(e["src"])] + [e]}, prop=prop)
        # random walks
        for _ in range(walks):
            rig = Rig(role, rnd)
            k = k0
            hist = []
            for _ in range(walk_len):
                es = bysrc.get(k)
                if not es:
                    break
                e = rnd.choice(es)
                hist.append(e)
                executed += 1
                d = step(rig, e)
                if d:
                    for prop, sig, text in d:
                        rep.violation(sig, f"{role}: {text} [random walk, {len(hist)} steps]", {"role": role, "history": hist}, prop=prop)
                    break
                k = vkey(e["dst"])
        # the same walks with bulk messages (tens of kilobytes each): buffer management that depends on how much is
        # pending (release / compaction thresholds) is only reached with a lot of octets queued
        for _ in range(max(40, walks // 25)):
            rig = Rig(role, rnd, bulk=True)
            k = k0
            hist = []
            for _ in range(walk_len):
                es = bysrc.get(k)
                if not es:
                    break
                e = rnd.choice(es)
                hist.append(e)
                executed += 1
                d = step(rig, e)
                if d:
                    for prop, sig, text in d:
                        rep.violation(sig, f"{role}: {text} [bulk random walk, {len(hist)} steps]", {"role": role, "bulk": True, "history": hist}, prop=prop)
                    break
                k = vkey(e["dst"])
    rep.traces += executed
    rep.evaluations += len(edges) * 2
    rep.distinct.update(f"drain:{vkey(e['src'])}:{vkey(e['call'])}:{r}" for e in edges for r in ("s", "c"))
    rep.add_part("spec->code replay of Drain.tla (server and client rigs)", abstract_states=len(bysrc), edges=len(edges), steps_executed=executed, random_walks=2 * walks)
    for e in edges[:: max(1, len(edges) // 3)][:3]:
        rep.sample({"engine": "drain", "edge": e})


def run_drain(rep: C.Report, wd: str, tier: str, seed: int) -> None:
    suffix = "q" if tier == "quick" else "t"
    res = C.run_tlc_parallel([dict(module="Drain", cfg=f"Drain_{suffix}.cfg", wd=wd, workers=2, tag="drainmc"),
                              dict(module="DrainEmit", cfg=f"DrainEmit_{suffix}.cfg", wd=wd, workers=1, tag="drainemit")])
    rep.add_tlc(f"Drain.tla ({suffix}): Conservation, InOrder, DrainReturnsPrefix, RefusedNoWire", res[0], exhaustive=True)
    edges = res[1].json_cases("EDGE")
    if not edges:
        raise C.MachineryError("no Drain edges emitted")
    replay(rep, edges, seed, walks=1500 if tier == "quick" else 20000, walk_len=30)


def run(tier: str, seed: int) -> int:
    C.use_repo()
    rep = C.Report("C12", tier, seed)
    wd = C.workdir("C12")
    try:
        run_drain(rep, wd, tier, seed)
        from . import strace

        strace.run_traces(rep, wd, tier, seed)
        rep.rule = ("one case per transition of Drain.tla (accepted send, refused send, drain of every amount 0..pending+2 and None) per role, reached through a "
                    "shortest path and through seeded random walks; distinct by (state, call, role)")
        rep.assumptions = ["D7: amounts are None or non-negative", "the expected stream is pack() of the message the call is documented to build (codec judged by C01/C03)"]
        return rep.finish()
    finally:
        C.cleanup(wd)
