------------------------------ MODULE IsoSched ------------------------------
(* All interleavings of two session programs of LenA and LenB steps: a schedule is a sequence over {1, 2}.  Every
   complete schedule is emitted; the replay runs the two programs on real sessions in that order. *)
EXTENDS Naturals, Sequences, TLC, Json
CONSTANTS LenA, LenB
VARIABLE sched

Init == sched = <<>>
Next == \/ /\ Len(SelectSeq(sched, LAMBDA v : v = 1)) < LenA /\ sched' = Append(sched, 1)
        \/ /\ Len(SelectSeq(sched, LAMBDA v : v = 2)) < LenB /\ sched' = Append(sched, 2)
Spec == Init /\ [][Next]_sched
Complete == Len(sched) = LenA + LenB
Emit == Complete => PrintT(<<"SCHED", ToJson(sched)>>)
\* a schedule never runs a program past its end and, when complete, ran both to their ends
WellFormed == /\ Len(SelectSeq(sched, LAMBDA v : v = 1)) <= LenA /\ Len(SelectSeq(sched, LAMBDA v : v = 2)) <= LenB
=============================================================================
