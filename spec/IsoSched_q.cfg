CONSTANTS
  LenA = 5
  LenB = 5
SPECIFICATION Spec
CHECK_DEADLOCK FALSE
INVARIANT WellFormed
CONSTRAINT Emit
