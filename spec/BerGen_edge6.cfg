CONSTANTS
  Alphabet = {0, 1, 127, 128, 255}
  MaxLen = 6
  EmitCases = TRUE
SPECIFICATION Spec
CHECK_DEADLOCK FALSE
CONSTRAINT Emit
INVARIANT ValueIsLimb
INVARIANT ContentRoundTrip
INVARIANT ValueRoundTrip
INVARIANT ContentIsMinimal
INVARIANT PaddingIgnored
INVARIANT SmallAgrees
INVARIANT LenRoundTrip
INVARIANT TagRoundTrip
