---------------------------- MODULE SessionTrace ----------------------------
(***************************************************************************)
(* Trace validation of recorded executions of real LDAPClient / LDAPServer *)
(* sessions (code -> spec) for C02 C05 C06 C08 C09 C10 C12.                *)
(*                                                                         *)
(* The specification re-uses the step operators of SessionCore for the     *)
(* protocol state machine, the independent framer Ber!Frame for "which     *)
(* complete units have been delivered", and the RFC 4511 decoder of        *)
(* LdapMsg for every octet string the library emitted.  One event per      *)
(* line of IOEnv.TRACE_FILE, logged by the driver after the public call    *)
(* returned or raised:                                                     *)
(*                                                                         *)
(*  new    role                         start of a trace: reset            *)
(*  stream units: [k, id, valid, dig]   the peer appends these units to    *)
(*                                      what it is going to deliver        *)
(*  recv   chunk, res, msgs: [k, id, dig], state, out, srch, resp          *)
(*  send   k, id, res, ret, emitted, state, out, srch                      *)
(*  unbind res, emitted, state                                             *)
(*  drain  amount (-1 = None), got, state                                  *)
(*                                                                         *)
(* Every action is total: failing clauses print VERDICT lines, then the    *)
(* specification adopts the logged post-state (resynchronisation) and the  *)
(* trace continues.  After a framing divergence the residue of the library *)
(* is unknown, so the framing clauses are switched off for the rest of     *)
(* that trace (only the first one is reported).  Once a unit the driver    *)
(* declared malformed has started to arrive, the declared units no longer  *)
(* tell what the following octets are (clean = FALSE): only the clauses    *)
(* that need no such knowledge (error class, count, fail closed) remain.   *)
(***************************************************************************)
EXTENDS SessionCore, LdapMsg, Json, IOUtils

LenFormMapAll == <<0, 1, 2, 3, 4>>
Log == ndJsonDeserialize(IOEnv.TRACE_FILE)

VARIABLES i, role, x, ibuf, queue, obuf, framing, clean, tid
vars == <<i, role, x, ibuf, queue, obuf, framing, clean, tid>>

Verdict(prop, clause) == PrintT(<<"VERDICT", i, prop, clause>>)
Check(cond, prop, clause) == IF cond THEN TRUE ELSE Verdict(prop, clause)

SetOf(seq) == {seq[j] : j \in 1..Len(seq)}
Desc(u) == [k |-> u.k, id |-> u.id]
Descs(us) == [j \in 1..Len(us) |-> Desc(us[j])]
Digs(us) == [j \in 1..Len(us) |-> us[j].dig]

\* kind of a decoded message, as the session layer sees it
KindOfMsg(m) ==
    CASE m.op = "bindRequest"    -> "bindReq"
      [] m.op = "searchRequest"  -> "searchReq"
      [] m.op = "extendedReq"    -> "extReq"
      [] m.op = "unbindRequest"  -> "unbind"
      [] m.op = "bindResponse"   -> IF m.result.code = LimbOfInt(14) THEN "bindRespProg" ELSE "bindRespOk"
      [] m.op = "extendedResp"   -> IF m.hasName /\ m.name = NoticeOid THEN "notice" ELSE "extResp"
      [] m.op = "searchResEntry" -> "entry"
      [] m.op = "searchResRef"   -> "ref"
      [] m.op = "searchResDone"  -> "done"

\* position of the protocolOp identifier octet (see CodecTrace) and the known-finding view of an unbind
OpTagPos(b) ==
    LET h == Header(b, 1) IN
    IF ~h.ok THEN 0 ELSE
    LET h2 == Header(b, h.hl + 1) IN
    IF ~h2.ok THEN 0 ELSE
    LET p == h.hl + 1 + h2.hl + h2.len IN IF p <= Len(b) THEN p ELSE 0
FixUnbind(b) == LET p == OpTagPos(b) IN IF p > 0 /\ b[p] = 98 THEN [b EXCEPT ![p] = 66] ELSE b

\* the octets a call queued must be exactly one RFC 4511 message of the expected kind and id
EmittedOK(bytes, k, id) ==
    LET d == DecStrict(bytes)
        d2 == IF d.ok THEN d ELSE DecStrict(FixUnbind(bytes))      \* C03's known finding is not this check's business
    IN  d2.ok /\ KindOfMsg(d2.m) = k /\ (id < 0 \/ d2.m.id = LimbOfInt(id))

\* ProtocolError.response: a notice of disconnection (server) / an unbind (client), message id 0
NotificationOK(bytes) ==
    IF role = "server"
    THEN LET d == DecStrict(bytes) IN d.ok /\ KindOfMsg(d.m) = "notice" /\ d.m.id = Zero /\ d.m.controls = <<>>
    ELSE LET d == DecStrict(bytes) IN d.ok /\ d.m.op = "unbindRequest" /\ d.m.id = Zero
NotificationOKModuloUnbindForm(bytes) ==
    role = "client" /\ LET d == DecStrict(FixUnbind(bytes)) IN d.ok /\ d.m.op = "unbindRequest" /\ d.m.id = Zero

Adopt(e, ctr) == x' = [st |-> e.state, out |-> SetOf(e.out), srch |-> SetOf(e.srch), ctr |-> ctr]
StateMatches(e, y) == e.state = y.st /\ (y.st = "CLOSED" \/ (SetOf(e.out) = y.out /\ (role = "server" \/ SetOf(e.srch) = y.srch)))

\* ---- events -------------------------------------------------------------------------------
New(e) == /\ role' = e.role /\ x' = InitState /\ ibuf' = <<>> /\ queue' = <<>> /\ obuf' = <<>> /\ framing' = TRUE /\ clean' = TRUE /\ tid' = e.tid

Stream(e) == /\ queue' = queue \o e.units
             /\ UNCHANGED <<role, x, ibuf, obuf, framing, clean, tid>>

Recv(e) ==
    IF x.st = "CLOSED" THEN
        /\ Check(e.res = "ProtocolError" /\ e.msgs = <<>>, "C08", "ClosedRefusesInput")
        /\ Check(e.res \in {"ok", "ProtocolError"}, "C05", "OnlyProtocolError")
        /\ Check(e.state = "CLOSED", "C08", "ClosedIsFinal")
        /\ Adopt(e, x.ctr) /\ UNCHANGED <<role, ibuf, queue, obuf, framing, clean, tid>>
    ELSE
    \* "\E v \in {expr} :" binds v to the VALUE of expr, once.  A LET definition in an action is re-evaluated at every
    \* reference: with  us  referring to  nq  referring to  f, every us[j] inside a quantifier re-ran Frame over the whole
    \* buffer (measured: 10 s for a delivery of 100 units, 96 s for 200).
    \E buf \in {ibuf \o e.chunk} :
    \E f \in {Frame(buf, 1, 0)} :
    \E nq \in {IF f.n <= Len(queue) THEN f.n ELSE Len(queue)} :
    \E us \in {SubSeq(queue, 1, nq)} :                      \* the declared units that are now complete
    \E rest \in {SubSeq(queue, nq + 1, Len(queue))} :
    \E expd \in {Receive(role, x, Descs(us))} :             \* what the state machine makes of the complete valid units
    LET allValid  == \A j \in 1..Len(us) : us[j].valid
        \* a malformed outer header makes framing impossible: from here on the library can only fail
        unframable == f.why \in {"indefinite", "big"}
        \* the incomplete tail unit is declared garbage and some of it has arrived: the library may reject it early
        tailGarbage == f.tail <= Len(buf) /\ rest # <<>> /\ ~rest[1].valid
        mayFail  == ~allValid \/ unframable \/ tailGarbage \/ expd.res # "ok"
        mustFail == allValid /\ expd.res # "ok"               \* a protocol violation or a designed termination
        tail  == SubSeq(buf, f.tail, Len(buf))
    IN
    /\ Check(e.res \in {"ok", "ProtocolError"}, "C05", "OnlyProtocolError")
    /\ IF e.res = "ok" THEN
          /\ (framing => Check(Len(e.msgs) = f.n, "C06", "CountMatches"))
          \* on a well-formed accepted stream a unit that is complete but not returned is lost for the caller (C02: none lost)
          /\ ((framing /\ clean /\ allValid /\ ~mustFail) => Check(Len(e.msgs) = f.n, "C02", "NoneLostOrHeldBack"))
          /\ ((framing /\ clean /\ allValid /\ Len(e.msgs) = f.n /\ f.n = nq) =>
                 /\ Check(Descs(e.msgs) = Descs(us), "C02", "ExactMessages")
                 /\ Check(Digs(e.msgs) = Digs(us), "C02", "EqualValues"))
          /\ (framing /\ clean /\ mustFail /\ Len(e.msgs) = f.n => Verdict(IF role = "client" THEN "C09" ELSE "C08", "ViolationAccepted"))
          /\ ((framing /\ clean /\ allValid /\ ~mustFail /\ Len(e.msgs) = f.n) => Check(StateMatches(e, expd.post), "C08", "StateAfterReceive"))
       ELSE IF e.res = "ProtocolError" THEN
          /\ (framing /\ clean /\ ~mayFail => Verdict("C02", "SpuriousError"))
          \* ... and for a client these were responses of operations in progress, which C09 says are accepted
          /\ (framing /\ clean /\ ~mayFail /\ role = "client" => Verdict("C09", "ValidResponseRejected"))
          /\ Check(e.state = "CLOSED", "C05", "FailClosed")
          /\ Check(e.msgs = <<>>, "C05", "ErrorReturnsNothing")
          /\ (e.resp # <<>> =>
                IF NotificationOK(e.resp) THEN TRUE
                ELSE IF NotificationOKModuloUnbindForm(e.resp) THEN Verdict("C05", "NotificationUnbindConstructed")
                ELSE Verdict("C05", "WellFormedNotification"))
       ELSE \* some other exception escaped (C05 OnlyProtocolError above); on a well-formed stream the session accepts,
            \* the messages of this delivery are lost for the caller whatever the exception class is
          (framing /\ clean /\ ~mayFail => Verdict("C02", "SpuriousError"))
    /\ Adopt(e, x.ctr)
    /\ ibuf' = IF e.res = "ok" THEN tail ELSE <<>>
    /\ queue' = rest
    /\ framing' = (framing /\ (e.res # "ok" \/ Len(e.msgs) = f.n))
    /\ clean' = (clean /\ allValid /\ ~tailGarbage /\ ~unframable /\ f.n = nq)
    /\ UNCHANGED <<role, obuf, tid>>

Send(e) ==
    LET r == IF e.ev = "unbind" THEN Unbind(x)
             ELSE IF role = "client" THEN ClientSend(x, e.k) ELSE SSend(x, e.k, e.id)
    IN
    /\ Check(e.res \in {"ok", "LDAPError"}, "C10", "OnlyLibraryError")
    /\ IF x.st = "CLOSED"
       THEN /\ Check(e.res # "ok", "C08", "ClosedRefusesCalls")
            /\ Check(e.emitted = <<>>, "C08", "ClosedEmitsNothing")
            /\ Check(e.state = "CLOSED", "C08", "ClosedIsFinal")
       ELSE /\ Check((e.res = "ok") = (r.res = "ok"),
                     IF r.res = "ok" \/ x.st = "BINDING" \/ (role = "client" /\ e.ev = "send" /\ e.k = "bindReq") THEN "C08" ELSE "C10", "CallAcceptance")
            /\ (e.res # "ok" => Check(e.emitted = <<>>, "C10", "RefusedNoWire"))
            /\ ((e.res = "ok" /\ r.res = "ok") =>
                  /\ (e.ev = "send" => Check(e.ret = r.ret, IF role = "client" THEN "C09" ELSE "C10", "ReturnedId"))
                  \* custom: the session has application-registered credential / control / filter types, whose encodings are
                  \* outside the RFC 4511 reference decoder (they are C19's business); only traces of the repository's tests set it
                  /\ Check(("custom" \in DOMAIN e /\ e.custom) \/ EmittedOK(e.emitted, r.emit[1].k, IF e.ev = "unbind" THEN 0 - 1 ELSE r.ret),
                           IF role = "client" THEN "C09" ELSE "C10", "EmittedMessage")
                  /\ Check(StateMatches(e, r.post), "C08", "StateAfterCall"))
            /\ ((e.res # "ok" /\ r.res # "ok") => Check(StateMatches(e, x) \/ (role = "server" /\ x.st = "BEFORE_OPEN" /\ e.state = "OPENED"), "C08", "RefusedNoEffect"))
            /\ ((e.res # "ok" /\ r.res # "ok" /\ role = "server" /\ x.st = "BEFORE_OPEN" /\ e.state = "OPENED") => Verdict("C08", "RefusedResponseOpens"))
    /\ Adopt(e, IF role = "client" /\ e.ev = "send" /\ e.res = "ok" THEN (IF e.ret >= x.ctr THEN e.ret + 1 ELSE x.ctr + 1) ELSE x.ctr)
    /\ obuf' = obuf \o e.emitted
    /\ UNCHANGED <<role, ibuf, queue, framing, clean, tid>>

Drain(e) ==
    LET take == IF e.amount < 0 \/ e.amount > Len(obuf) THEN Len(obuf) ELSE e.amount IN
    /\ Check(e.got = SubSeq(obuf, 1, take), "C12", "DrainReturnsPrefix")
    /\ Check(e.state = x.st, "C12", "DrainKeepsState")
    /\ obuf' = IF Len(e.got) <= Len(obuf) THEN SubSeq(obuf, Len(e.got) + 1, Len(obuf)) ELSE <<>>
    /\ UNCHANGED <<role, x, ibuf, queue, framing, clean, tid>>

Step(e) ==
    CASE e.ev = "new"    -> New(e)
      [] e.ev = "stream" -> Stream(e)
      [] e.ev = "recv"   -> Recv(e)
      [] e.ev \in {"send", "unbind"} -> Send(e)
      [] e.ev = "drain"  -> Drain(e)

Init == /\ i = 1 /\ role = "client" /\ x = InitState /\ ibuf = <<>> /\ queue = <<>> /\ obuf = <<>> /\ framing = TRUE /\ clean = TRUE /\ tid = 0
Next == i <= Len(Log) /\ Step(Log[i]) /\ i' = i + 1
Spec == Init /\ [][Next]_vars
AllConsumed == TLCGet("stats").diameter - 1 = Len(Log)
=============================================================================
