---------------------------- MODULE MC_SessionInd ----------------------------
(***************************************************************************)
(* Apalache wrapper of SessionInd (checked with apalache-mc, not TLC; the  *)
(* module Apalache is built into apalache-mc).                             *)
(*                                                                         *)
(*  1. apalache-mc check --cinit=CInit --init=Init    --inv=IndInv    --length=0 MC_SessionInd.tla  *)
(*        the invariant holds initially                                    *)
(*  2. apalache-mc check --cinit=CInit --init=IndInit --inv=IndInv    --length=1 MC_SessionInd.tla  *)
(*        the invariant is preserved by every step (inductive)             *)
(*  3. apalache-mc check --cinit=CInit --init=IndInit --inv=ActionInv --length=1 MC_SessionInd.tla  *)
(*        every step from any state of the invariant has the action        *)
(*        properties of C05 / C08 / C09 / C10                              *)
(*                                                                         *)
(* 1-3 together: the action properties hold on every step of every         *)
(* behaviour, for arbitrary integer message ids and any number of calls;   *)
(* Gen(n) bounds only the number of operations in progress at the start of *)
(* the step examined (n = MaxInProgress).                                  *)
(***************************************************************************)
EXTENDS SessionInd, Apalache

\* any state satisfying the invariant, with at most 6 operations in progress
IndInit ==
    /\ st \in States
    /\ out = Gen(6) /\ srch = Gen(6)
    /\ ctr \in Int
    /\ res = "any" /\ emitted = "none"
    /\ IndInv
=============================================================================
