----------------------------- MODULE SessionInd -----------------------------
(***************************************************************************)
(* Inductive invariant of the session state machine for Apalache: the      *)
(* design-level facts behind C08-C10 hold for UNBOUNDED message ids (any   *)
(* integers), not only for the small MaxId that TLC explores.              *)
(*                                                                         *)
(* The step relation is SessionCore's, restated without recursion for one  *)
(* delivered message at a time (a receive call with several units is a     *)
(* sequence of such steps as far as the protocol state is concerned).      *)
(*                                                                         *)
(* Checked through MC_SessionInd.tla (Apalache) - see there; that this      *)
(* restatement admits every step of SessionCore is checked by TLC in       *)
(* SessionIndRef.tla, so what Apalache proves here holds for SessionCore.  *)
(***************************************************************************)
EXTENDS Integers, FiniteSets

CONSTANT
    \* @type: Str;
    Role

VARIABLES
    \* @type: Str;
    st,
    \* @type: Set(Int);
    out,
    \* @type: Set(Int);
    srch,
    \* @type: Int;
    ctr,
    \* @type: Str;
    res,
    \* @type: Str;
    emitted

CInit == Role \in {"client", "server"}

States == {"BEFORE_OPEN", "BINDING", "OPENED", "CLOSED"}
ReqKinds == {"bindReq", "searchReq", "extReq"}
RespKinds == {"bindRespOk", "bindRespProg", "extResp", "notice", "entry", "ref", "done"}
Opened(s) == IF s = "BEFORE_OPEN" THEN "OPENED" ELSE s

Init == st = "BEFORE_OPEN" /\ out = {} /\ srch = {} /\ ctr = 1 /\ res = "init" /\ emitted = "none"

Keep == UNCHANGED <<st, out, srch, ctr>>
Close == st' = "CLOSED" /\ out' = {} /\ srch' = {} /\ ctr' = ctr

\* ---- client ------------------------------------------------------------------
CSend(kind) ==
    IF st = "CLOSED" \/ (kind = "bindReq" /\ out # {}) \/ (kind # "bindReq" /\ st = "BINDING")
    THEN Keep /\ res' = "LDAPError" /\ emitted' = "none"
    ELSE /\ ctr' = ctr + 1 /\ out' = out \union {ctr}
         /\ srch' = (IF kind = "searchReq" THEN srch \union {ctr} ELSE srch)
         /\ st' = (IF kind = "bindReq" THEN "BINDING" ELSE Opened(st))
         /\ res' = "ok" /\ emitted' = kind

Unbind ==
    IF st = "CLOSED" THEN Keep /\ res' = "LDAPError" /\ emitted' = "none"
    ELSE Close /\ res' = "ok" /\ emitted' = "unbind"

CRecv(k, id) ==
    IF st = "CLOSED" THEN Keep /\ res' = "ProtocolError" /\ emitted' = "none"
    ELSE IF k \in {"unbind", "notice", "garbage"} \/ k \in ReqKinds THEN Close /\ res' = "ProtocolError" /\ emitted' = "none"
    ELSE IF id \in srch THEN
        /\ srch' = (IF k = "done" THEN srch \ {id} ELSE srch)
        /\ out' = (IF k = "done" THEN out \ {id} ELSE out)
        /\ st' = (IF k = "bindRespOk" THEN "OPENED" ELSE st)
        /\ ctr' = ctr /\ res' = "ok" /\ emitted' = "none"
    ELSE IF id \notin out THEN Close /\ res' = "ProtocolError" /\ emitted' = "none"
    ELSE /\ out' = out \ {id} /\ srch' = srch
         /\ st' = (IF k = "bindRespOk" THEN "OPENED" ELSE st)
         /\ ctr' = ctr /\ res' = "ok" /\ emitted' = "none"

\* ---- server ---------------------------------------------------------------------
SSend(kind, id) ==
    IF st = "CLOSED" \/ (st = "BINDING" /\ kind \notin {"bindRespOk", "bindRespProg", "notice"}) \/ id \notin out
    THEN Keep /\ res' = "LDAPError" /\ emitted' = "none"
    ELSE IF kind = "notice" THEN Close /\ res' = "ok" /\ emitted' = kind
    ELSE /\ out' = (IF kind \in {"entry", "ref"} THEN out ELSE out \ {id})
         /\ srch' = (IF kind = "done" THEN srch \ {id} ELSE srch)
         /\ st' = (IF kind = "bindRespOk" THEN "OPENED" ELSE Opened(st))
         /\ ctr' = ctr /\ res' = "ok" /\ emitted' = kind

SRecv(k, id) ==
    IF st = "CLOSED" THEN Keep /\ res' = "ProtocolError" /\ emitted' = "none"
    ELSE IF k \in {"unbind", "notice", "garbage"} \/ k \in RespKinds \/ (k = "bindReq" /\ out # {}) THEN Close /\ res' = "ProtocolError" /\ emitted' = "none"
    ELSE /\ st' = (IF k = "bindReq" THEN "BINDING" ELSE Opened(st))
         /\ out' = out \union {id}
         /\ srch' = (IF k = "searchReq" THEN srch \union {id} ELSE srch)
         /\ ctr' = ctr /\ res' = "ok" /\ emitted' = "none"

AllKinds == ReqKinds \union RespKinds \union {"unbind", "garbage"}

Next ==
    \/ (Role = "client" /\ \E kind \in ReqKinds : CSend(kind))
    \/ (Role = "server" /\ \E kind \in RespKinds : \E id \in Int : SSend(kind, id))
    \/ Unbind
    \/ \E k \in AllKinds : \E id \in Int : (IF Role = "client" THEN CRecv(k, id) ELSE SRecv(k, id))

\* ---- the inductive invariant -------------------------------------------------------
IndInv ==
    /\ st \in States
    /\ (st = "CLOSED" => out = {} /\ srch = {})
    /\ (st = "BEFORE_OPEN" => out = {} /\ srch = {} /\ ctr = 1)
    /\ ctr >= 1
    /\ (Role = "client" => /\ \A i \in out : i >= 1 /\ i < ctr
                           /\ srch \subseteq out
                           /\ (st = "BINDING" => Cardinality(out) <= 1 /\ srch = {}))
    /\ (Role = "server" => ctr = 1)

\* ---- the action properties of C08-C10, over one step from any state of the invariant ------
ActionInv ==
    \* C08 CLOSED is final: nothing changes, nothing is emitted, every call is refused
    /\ (st = "CLOSED" => st' = "CLOSED" /\ out' = out /\ emitted' = "none" /\ res' \in {"LDAPError", "ProtocolError"})
    \* C08 BINDING is left only for CLOSED or by a final bind response
    /\ ((st = "BINDING" /\ st' # "BINDING") => st' = "CLOSED" \/ (st' = "OPENED" /\ (emitted' = "bindRespOk" \/ (Role = "client" /\ res' = "ok"))))
    \* C08 while BINDING only bind traffic or a termination is emitted
    /\ ((st = "BINDING" /\ emitted' # "none") => emitted' \in {"bindReq", "bindRespOk", "bindRespProg", "unbind", "notice"})
    \* C10 a refused call changes nothing and emits nothing
    /\ (res' = "LDAPError" => st' = st /\ out' = out /\ srch' = srch /\ ctr' = ctr /\ emitted' = "none")
    \* C09 ids are handed out in increasing order and never reused
    /\ ctr' >= ctr /\ (\A i \in out' \ out : Role = "client" => i = ctr /\ ctr' = ctr + 1)
    \* C05 / C09 a failing receive closes the session
    /\ (res' = "ProtocolError" => st' = "CLOSED")
=============================================================================
