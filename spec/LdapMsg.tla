------------------------------ MODULE LdapMsg ------------------------------
(***************************************************************************)
(* RFC 4511 LDAPMessage: abstract syntax <-> TLV trees <-> octets.         *)
(* Written from the ASN.1 module of RFC 4511 Appendix B (and RFC 2696 for  *)
(* the paged-results control value), NOT from sansldap/_messages.py.       *)
(*                                                                         *)
(* Abstract values are records that mirror the RFC's ASN.1.  Text fields   *)
(* are UTF-8 octet sequences, unbounded integers are limb values of        *)
(* Ber.tla, OPTIONAL components carry an explicit has* flag (an absent     *)
(* component has the flag FALSE and an empty value).                       *)
(*                                                                         *)
(*   message  [op, id, controls, ...per operation...]                      *)
(*   result   [code, matched, diag, hasRef, refs]                          *)
(*   control  [type, crit, known, hasValue, value, size, cookie]           *)
(*            known = "no" (generic control: hasValue/value are the raw    *)
(*            controlValue), "paged" (RFC 2696: size, cookie), "noval"     *)
(*            (a library-known control without value)                     *)
(*   filter   [k |-> "and"/"or", fs] [k |-> "not", f]                      *)
(*            [k |-> "eq"/"ge"/"le"/"approx", attr, v]                     *)
(*            [k |-> "sub", attr, hasIni, ini, any, hasFin, fin]           *)
(*            [k |-> "present", attr]                                      *)
(*            [k |-> "ext", hasRule, rule, hasAttr, attr, v, dn]           *)
(*   auth     [k |-> "simple", password] [k |-> "sasl", mech, hasCreds, creds]*)
(*                                                                         *)
(* Tree(m, xd)   the TLV tree the RFC prescribes (xd: encode DEFAULT       *)
(*               components explicitly - a freedom of BER, used by C04)    *)
(* Enc(m)        canonical octets (minimal lengths)                        *)
(* DecMsg(b, strict) decoder written from the ASN.1: strict = what a DER-like *)
(*               strict peer accepts of RFC 4511 section 5.1 (C03);        *)
(*               ~strict additionally accepts every freedom BER and the    *)
(*               extensibility rule of section 4 permit (C04)              *)
(* EncAlt(t, ch) nondeterministic encoder driven by a choice sequence      *)
(***************************************************************************)
EXTENDS Ber, TLC

\* the alternatives the nondeterministic encoder may use (indices into the tables below); a configuration may
\* restrict them to keep exhaustive enumeration small
CONSTANTS LenFormMap, BoolMap, TrailMap

Bad == [ok |-> FALSE]

\* ---- tree nodes ------------------------------------------------------------
\* kind: "seq" (SEQUENCE with defined components: a trailing element may follow),
\*       "list" (SEQUENCE OF / SET OF / explicit wrapper), "bool", "leaf"
Prim(cls, num, val, kind)  == [cls |-> cls, cons |-> 0, num |-> num, val |-> val, kind |-> kind]
Cons(cls, num, kids, kind) == [cls |-> cls, cons |-> 1, num |-> num, kids |-> kids, kind |-> kind]

IntNode(v)  == Prim(0, UInt, IntContent(v), "leaf")
EnumNode(v) == Prim(0, UEnum, IntContent(v), "leaf")
OctNode(s)  == Prim(0, UOctets, s, "leaf")
BoolNode(b) == Prim(0, UBool, <<IF b THEN 255 ELSE 0>>, "bool")
CtxOct(n, s) == Prim(2, n, s, "leaf")
Opt(has, node) == IF has THEN <<node>> ELSE <<>>
MapSeq(s, Op(_)) == [j \in 1..Len(s) |-> Op(s[j])]

\* ---- Filter (RFC 4511 4.5.1) ----------------------------------------------------
RECURSIVE FilterTree(_, _)
FilterTree(f, xd) ==
    CASE f.k = "and"     -> Cons(2, 0, [j \in 1..Len(f.fs) |-> FilterTree(f.fs[j], xd)], "list")
      [] f.k = "or"      -> Cons(2, 1, [j \in 1..Len(f.fs) |-> FilterTree(f.fs[j], xd)], "list")
      [] f.k = "not"     -> Cons(2, 2, <<FilterTree(f.f, xd)>>, "list")
      [] f.k = "eq"      -> Cons(2, 3, <<OctNode(f.attr), OctNode(f.v)>>, "seq")
      [] f.k = "sub"     -> Cons(2, 4, <<OctNode(f.attr),
                                          Cons(0, USeq, Opt(f.hasIni, CtxOct(0, f.ini))
                                                        \o [j \in 1..Len(f.any) |-> CtxOct(1, f.any[j])]
                                                        \o Opt(f.hasFin, CtxOct(2, f.fin)), "list")>>, "seq")
      [] f.k = "ge"      -> Cons(2, 5, <<OctNode(f.attr), OctNode(f.v)>>, "seq")
      [] f.k = "le"      -> Cons(2, 6, <<OctNode(f.attr), OctNode(f.v)>>, "seq")
      [] f.k = "present" -> CtxOct(7, f.attr)
      [] f.k = "other"   -> CtxOct(f.n, f.val)
      [] f.k = "approx"  -> Cons(2, 8, <<OctNode(f.attr), OctNode(f.v)>>, "seq")
      [] f.k = "ext"     -> Cons(2, 9, Opt(f.hasRule, CtxOct(1, f.rule)) \o Opt(f.hasAttr, CtxOct(2, f.attr))
                                        \o <<CtxOct(3, f.v)>>
                                        \o Opt(f.dn \/ xd, Prim(2, 4, <<IF f.dn THEN 255 ELSE 0>>, "bool")), "seq")

\* ---- Controls (4.1.11, RFC 2696) ---------------------------------------------
PagedValue(c) == TLV(0, 1, USeq, TLV(0, 0, UInt, IntContent(c.size)) \o TLV(0, 0, UOctets, c.cookie))
\* a flag control ("noval") is defined without a value, but a peer may send one (legal BER): it is kept
CtlHasValue(c) == IF c.known = "paged" THEN TRUE ELSE c.hasValue
CtlValue(c)    == IF c.known = "paged" THEN PagedValue(c) ELSE c.value
CtlTree(c, xd) == Cons(0, USeq, <<OctNode(c.type)>> \o Opt(c.crit \/ xd, BoolNode(c.crit))
                                 \o Opt(CtlHasValue(c), OctNode(CtlValue(c))), "seq")

\* ---- LDAPResult (4.1.9) ---------------------------------------------------------
ResultKids(r) == <<EnumNode(r.code), OctNode(r.matched), OctNode(r.diag)>>
                 \o Opt(r.hasRef, Cons(2, 3, MapSeq(r.refs, OctNode), "list"))

\* AuthenticationChoice and Filter are extensible CHOICEs ("..."): an application-registered alternative is any other
\* context-specific tag; the harness uses primitive ones, [k |-> "other", n, val]
AuthTree(a) == IF a.k = "simple" THEN CtxOct(0, a.password)
               ELSE IF a.k = "other" THEN CtxOct(a.n, a.val)
               ELSE Cons(2, 3, <<OctNode(a.mech)>> \o Opt(a.hasCreds, OctNode(a.creds)), "seq")

PartialAttr(pa) == Cons(0, USeq, <<OctNode(pa.type), Cons(0, USet, MapSeq(pa.vals, OctNode), "list")>>, "seq")

OpTree(m, xd) ==
    CASE m.op = "bindRequest"    -> Cons(1, 0, <<IntNode(m.version), OctNode(m.name), AuthTree(m.auth)>>, "seq")
      [] m.op = "bindResponse"   -> Cons(1, 1, ResultKids(m.result) \o Opt(m.hasSasl, CtxOct(7, m.sasl)), "seq")
      [] m.op = "unbindRequest"  -> Prim(1, 2, <<>>, "leaf")
      [] m.op = "searchRequest"  -> Cons(1, 3, <<OctNode(m.base), EnumNode(m.scope), EnumNode(m.deref), IntNode(m.size),
                                                 IntNode(m.time), BoolNode(m.typesOnly), FilterTree(m.filter, xd),
                                                 Cons(0, USeq, MapSeq(m.attrs, OctNode), "list")>>, "seq")
      [] m.op = "searchResEntry" -> Cons(1, 4, <<OctNode(m.name), Cons(0, USeq, MapSeq(m.attrs, PartialAttr), "list")>>, "seq")
      [] m.op = "searchResDone"  -> Cons(1, 5, ResultKids(m.result), "seq")
      [] m.op = "searchResRef"   -> Cons(1, 19, MapSeq(m.uris, OctNode), "list")
      [] m.op = "extendedReq"    -> Cons(1, 23, <<CtxOct(0, m.name)>> \o Opt(m.hasValue, CtxOct(1, m.value)), "seq")
      [] m.op = "extendedResp"   -> Cons(1, 24, ResultKids(m.result) \o Opt(m.hasName, CtxOct(10, m.name))
                                                 \o Opt(m.hasValue, CtxOct(11, m.value)), "seq")

Tree(m, xd) == Cons(0, USeq, <<IntNode(m.id), OpTree(m, xd)>>
                             \o Opt(m.controls # <<>>, Cons(2, 0, [j \in 1..Len(m.controls) |-> CtlTree(m.controls[j], xd)], "list")),
                    "seq")

\* ---- canonical encoder ------------------------------------------------------------
RECURSIVE EncNode(_), EncKids(_, _)
EncNode(n) == TLV(n.cls, n.cons, n.num, IF n.cons = 1 THEN EncKids(n.kids, 1) ELSE n.val)
EncKids(ks, j) == IF j > Len(ks) THEN <<>> ELSE EncNode(ks[j]) \o EncKids(ks, j + 1)
Enc(m) == EncNode(Tree(m, FALSE))

RECURSIVE NodeCount(_), KidsCount(_, _)
NodeCount(n) == 1 + (IF n.cons = 1 THEN KidsCount(n.kids, 1) ELSE 0)
KidsCount(ks, j) == IF j > Len(ks) THEN 0 ELSE NodeCount(ks[j]) + KidsCount(ks, j + 1)

\* ---- nondeterministic encoder (the encoding freedoms of C04) ---------------------
\* Consumes the choice sequence ch left to right (pre-order): per node a length form 0..4
\* (0 minimal, 1 long form with the minimal number of octets, 2 one leading zero octet more,
\* 3 the fixed 4-octet form 0x84 of Active Directory, 4 eight octets), per BOOLEAN TRUE an
\* octet 0..3 (255, 1, 128, 127), per "seq" node a trailing element 0..4 (none, [20] primitive,
\* [1000] primitive in high-tag form, PRIVATE 5 constructed, [21] constructed with content).
\* Result [bytes, i] or [need |-> arity] when the choices run out.
NLenForms == Len(LenFormMap)  NBoolForms == Len(BoolMap)  NTrail == Len(TrailMap)
LenForm(n, form) ==
    LET d == DigitsOf(n, 256) IN
    CASE form = 0 -> LenOctetsMinSmall(n)
      [] form = 1 -> LenOctetsLong(n, IF Len(d) = 0 THEN 1 ELSE Len(d))
      [] form = 2 -> LenOctetsLong(n, Len(d) + 1)
      [] form = 3 -> LenOctetsLong(n, 4)
      [] form = 4 -> LenOctetsLong(n, 8)
TrueOctet(c) == CASE c = 0 -> 255 [] c = 1 -> 1 [] c = 2 -> 128 [] c = 3 -> 127
Trailer(c) == CASE c = 0 -> <<>>
                [] c = 1 -> <<128 + 20, 1, 7>>                       \* [20] primitive, 1 octet
                [] c = 2 -> <<128 + 31, 128 + 7, 104, 0>>            \* [1000] primitive, high tag number form, empty
                [] c = 3 -> <<192 + 32 + 5, 0>>                      \* [PRIVATE 5] constructed, empty
                [] c = 4 -> <<128 + 32 + 21, 3, 4, 1, 65>>           \* [21] constructed { OCTET STRING "A" }
                \* tags whose NUMBER is that of a defined optional component but whose CLASS is not (an element the sequence does
                \* not define must be skipped, whatever its number): BindResponse [7], ExtendedResponse [10] [11], ExtendedRequest [1]
                [] c = 5 -> <<192 + 7, 1, 65>>                       \* [PRIVATE 7] primitive
                [] c = 6 -> <<192 + 11, 1, 66>>                      \* [PRIVATE 11] primitive
                [] c = 7 -> <<64 + 10, 1, 67>>                       \* [APPLICATION 10] primitive
                [] c = 8 -> <<192 + 1, 1, 255>>                      \* [PRIVATE 1] primitive
                \* an unknown element FOLLOWED by universal ones: once the extension additions have begun, a later OCTET STRING
                \* or BOOLEAN is not an optional component of the sequence any more
                [] c = 9 -> <<128 + 5, 1, 120, 4, 1, 121>>           \* [5] "x", OCTET STRING "y"
                [] c = 10 -> <<128 + 5, 1, 120, 1, 1, 255, 1, 1, 0>> \* [5] "x", BOOLEAN TRUE, BOOLEAN FALSE
                \* high tag number form with ONE number octet (31..127): the octet after the identifier is a tag number below 128, which a
                \* reader that mistakes it for a short-form length skips by the wrong distance
                [] c = 11 -> <<128 + 31, 40, 1, 7>>                   \* [40] primitive, 1 octet
                [] c = 12 -> <<128 + 31, 31, 0>>                      \* [31] primitive, empty (the smallest number that needs the form)
                [] c = 13 -> <<128 + 32 + 31, 100, 3, 4, 1, 65>>      \* [100] constructed { OCTET STRING "A" }
                \* [31] empty, then [5] with 40 content octets: 28 fillers followed by look-alikes of the defined optional components
                \* ([7] of BindResponse, [10] [11] of ExtendedResponse, [1] of ExtendedRequest).  They are CONTENT of an unknown element; a
                \* reader that skips the first element by a wrong distance (its number octet 31 taken for a length) resumes on them
                [] c = 14 -> <<128 + 31, 31, 0, 128 + 5, 40>> \o [j \in 1..28 |-> 0]
                                 \o <<128 + 7, 1, 97, 128 + 10, 1, 98, 128 + 11, 1, 99, 128 + 1, 1, 100>>
HasNeed(r) == "need" \in DOMAIN r

RECURSIVE EncAltNode(_, _, _), EncAltKids(_, _, _, _, _)
EncAltNode(n, ch, i) ==
    IF i > Len(ch) THEN [need |-> NLenForms] ELSE
    LET form == LenFormMap[ch[i] + 1] IN
    IF n.cons = 0 THEN
        IF n.kind = "bool" /\ n.val = <<255>> THEN
            IF i + 1 > Len(ch) THEN [need |-> NBoolForms]
            ELSE [bytes |-> IdOctetsSmall(n.cls, 0, n.num) \o LenForm(1, form) \o <<TrueOctet(BoolMap[ch[i + 1] + 1])>>, i |-> i + 2]
        ELSE [bytes |-> IdOctetsSmall(n.cls, 0, n.num) \o LenForm(Len(n.val), form) \o n.val, i |-> i + 1]
    ELSE
        LET k == EncAltKids(n.kids, 1, ch, i + 1, <<>>) IN
        IF HasNeed(k) THEN k
        ELSE IF n.kind = "seq" THEN
                IF k.i > Len(ch) THEN [need |-> NTrail]
                ELSE LET body == k.bytes \o Trailer(TrailMap[ch[k.i] + 1]) IN
                     [bytes |-> IdOctetsSmall(n.cls, 1, n.num) \o LenForm(Len(body), form) \o body, i |-> k.i + 1]
             ELSE [bytes |-> IdOctetsSmall(n.cls, 1, n.num) \o LenForm(Len(k.bytes), form) \o k.bytes, i |-> k.i]
EncAltKids(ks, j, ch, i, acc) ==
    IF j > Len(ks) THEN [bytes |-> acc, i |-> i]
    ELSE LET r == EncAltNode(ks[j], ch, i) IN
         IF HasNeed(r) THEN r ELSE EncAltKids(ks, j + 1, ch, r.i, acc \o r.bytes)
EncAlt(t, ch) == EncAltNode(t, ch, 1)

\* a "uniform style" encoder: the same length form / boolean octet / trailer everywhere
RECURSIVE EncStyleNode(_, _, _, _), EncStyleKids(_, _, _, _, _)
EncStyleNode(n, lf, bo, tr) ==
    IF n.cons = 0 THEN
        IdOctetsSmall(n.cls, 0, n.num) \o LenForm(Len(n.val), lf)
            \o (IF n.kind = "bool" /\ n.val = <<255>> THEN <<TrueOctet(bo)>> ELSE n.val)
    ELSE LET body == EncStyleKids(n.kids, 1, lf, bo, tr) \o (IF n.kind = "seq" THEN Trailer(tr) ELSE <<>>)
         IN  IdOctetsSmall(n.cls, 1, n.num) \o LenForm(Len(body), lf) \o body
EncStyleKids(ks, j, lf, bo, tr) ==
    IF j > Len(ks) THEN <<>> ELSE EncStyleNode(ks[j], lf, bo, tr) \o EncStyleKids(ks, j + 1, lf, bo, tr)

\* ---- decoder written from the ASN.1 ---------------------------------------------------
IsPrim(n, cls, num) == ~n.bad /\ n.cls = cls /\ n.cons = 0 /\ n.num = num
IsCons(n, cls, num) == ~n.bad /\ n.cls = cls /\ n.cons = 1 /\ n.num = num
TagIs(n, cls, num)  == ~n.bad /\ n.cls = cls /\ n.num = num

DInt(n, unum) == IF IsPrim(n, 0, unum) /\ Len(n.val) >= 1 /\ IsMinimalInt(n.val)
                 THEN [ok |-> TRUE, v |-> IntValue(n.val)] ELSE Bad
DOct(n) == IF IsPrim(n, 0, UOctets) THEN [ok |-> TRUE, v |-> n.val] ELSE Bad
DBoolVal(val, strict) == IF Len(val) # 1 THEN Bad
                         ELSE IF strict /\ val[1] \notin {0, 255} THEN Bad
                         ELSE [ok |-> TRUE, v |-> val[1] # 0]
DBool(n, strict) == IF IsPrim(n, 0, UBool) THEN DBoolVal(n.val, strict) ELSE Bad

\* all elements of a SEQUENCE OF / SET OF must be OCTET STRINGs; [ok, vs]
RECURSIVE DAllOct(_, _, _)
DAllOct(ks, j, acc) ==
    IF j > Len(ks) THEN [ok |-> TRUE, vs |-> acc]
    ELSE LET r == DOct(ks[j]) IN IF r.ok THEN DAllOct(ks, j + 1, Append(acc, r.v)) ELSE Bad

\* extras: the elements ks[p..] after the defined components.  Strict: none.  Liberal: the defined components are
\* matched in order; the first element that is not the next expected component begins the extension additions, and
\* nothing after it is a component any more - whatever tag it carries (RFC 4511 section 4, X.680 extension marker at the
\* end of the type).  The FIRST extra must therefore not carry the tag of an optional component that could still
\* follow (reserved, a set of <<cls, num>>): it would have been taken as that component.
ExtrasOK(ks, p, strict, reserved) ==
    IF strict THEN p > Len(ks)
    ELSE /\ \A j \in p..Len(ks) : ~ks[j].bad
         /\ (p <= Len(ks) => <<ks[p].cls, ks[p].num>> \notin reserved)

RECURSIVE DFilter(_, _), DFilterList(_, _, _, _)
DAva(n, strict) ==
    IF Len(n.kids) < 2 THEN Bad ELSE
    LET a == DOct(n.kids[1])  v == DOct(n.kids[2]) IN
    IF a.ok /\ v.ok /\ ExtrasOK(n.kids, 3, strict, {}) THEN [ok |-> TRUE, attr |-> a.v, v |-> v.v] ELSE Bad
DSubParts(ks, strict) ==  \* substrings SEQUENCE OF CHOICE { initial [0], any [1], final [2] }: initial first, final last
    LET n == Len(ks)
        tagsOK == \A j \in 1..n : ~ks[j].bad /\ ks[j].cls = 2 /\ ks[j].cons = 0 /\ ks[j].num \in {0, 1, 2}
    IN  IF ~tagsOK THEN Bad
        ELSE IF n = 0 THEN [ok |-> TRUE, hasIni |-> FALSE, ini |-> <<>>, any |-> <<>>, hasFin |-> FALSE, fin |-> <<>>]   \* SIZE constraints are not enforced (D13)
        ELSE IF \E j \in 2..n : ks[j].num = 0 THEN Bad
        ELSE IF \E j \in 1..(n - 1) : ks[j].num = 2 THEN Bad
        ELSE LET hasIni == ks[1].num = 0
                 hasFin == ks[n].num = 2 /\ (n > 1 \/ ~hasIni)
                 lo == IF hasIni THEN 2 ELSE 1
                 hi == IF hasFin THEN n - 1 ELSE n
             IN [ok |-> TRUE, hasIni |-> hasIni, ini |-> IF hasIni THEN ks[1].val ELSE <<>>,
                 any |-> [j \in 1..(hi - lo + 1) |-> ks[lo + j - 1].val],
                 hasFin |-> hasFin, fin |-> IF hasFin THEN ks[n].val ELSE <<>>]
DExt(n, strict) ==
    LET ks == n.kids
        p1 == IF Len(ks) >= 1 /\ IsPrim(ks[1], 2, 1) THEN 2 ELSE 1
        p2 == IF Len(ks) >= p1 /\ IsPrim(ks[p1], 2, 2) THEN p1 + 1 ELSE p1
    IN  IF Len(ks) < p2 \/ ~IsPrim(ks[p2], 2, 3) THEN Bad ELSE
        LET hasDn == Len(ks) > p2 /\ IsPrim(ks[p2 + 1], 2, 4)
            dn == IF hasDn THEN DBoolVal(ks[p2 + 1].val, strict) ELSE [ok |-> TRUE, v |-> FALSE]
            p4 == IF hasDn THEN p2 + 2 ELSE p2 + 1
        IN  IF ~dn.ok \/ (strict /\ hasDn /\ ~dn.v) \/ ~ExtrasOK(ks, p4, strict, {<<2, 1>>, <<2, 2>>, <<2, 3>>, <<2, 4>>}) THEN Bad
            ELSE [ok |-> TRUE, v |-> [k |-> "ext", hasRule |-> p1 = 2, rule |-> IF p1 = 2 THEN ks[1].val ELSE <<>>,
                                     hasAttr |-> p2 > p1, attr |-> IF p2 > p1 THEN ks[p1].val ELSE <<>>,
                                     v |-> ks[p2].val, dn |-> dn.v]]
DFilterList(ks, j, strict, acc) ==
    IF j > Len(ks) THEN [ok |-> TRUE, vs |-> acc]
    ELSE LET r == DFilter(ks[j], strict) IN IF r.ok THEN DFilterList(ks, j + 1, strict, Append(acc, r.v)) ELSE Bad
DFilter(n, strict) ==
    IF n.bad \/ n.cls # 2 THEN Bad
    ELSE IF n.num \in {0, 1} /\ n.cons = 1 THEN
        LET l == DFilterList(n.kids, 1, strict, <<>>) IN
        IF l.ok THEN [ok |-> TRUE, v |-> [k |-> IF n.num = 0 THEN "and" ELSE "or", fs |-> l.vs]] ELSE Bad
    ELSE IF n.num = 2 /\ n.cons = 1 THEN
        IF Len(n.kids) # 1 THEN Bad
        ELSE LET r == DFilter(n.kids[1], strict) IN IF r.ok THEN [ok |-> TRUE, v |-> [k |-> "not", f |-> r.v]] ELSE Bad
    ELSE IF n.num \in {3, 5, 6, 8} /\ n.cons = 1 THEN
        LET a == DAva(n, strict) IN
        IF a.ok THEN [ok |-> TRUE, v |-> [k |-> CASE n.num = 3 -> "eq" [] n.num = 5 -> "ge" [] n.num = 6 -> "le" [] n.num = 8 -> "approx",
                                           attr |-> a.attr, v |-> a.v]] ELSE Bad
    ELSE IF n.num = 4 /\ n.cons = 1 THEN
        IF Len(n.kids) < 2 \/ ~IsCons(n.kids[2], 0, USeq) \/ ~ExtrasOK(n.kids, 3, strict, {}) THEN Bad ELSE
        LET a == DOct(n.kids[1])  s == DSubParts(n.kids[2].kids, strict) IN
        IF a.ok /\ s.ok THEN [ok |-> TRUE, v |-> [k |-> "sub", attr |-> a.v, hasIni |-> s.hasIni, ini |-> s.ini, any |-> s.any,
                                                   hasFin |-> s.hasFin, fin |-> s.fin]] ELSE Bad
    ELSE IF n.num = 7 /\ n.cons = 0 THEN [ok |-> TRUE, v |-> [k |-> "present", attr |-> n.val]]
    ELSE IF n.num = 9 /\ n.cons = 1 THEN DExt(n, strict)
    ELSE IF n.num > 9 /\ n.cons = 0 THEN [ok |-> TRUE, v |-> [k |-> "other", n |-> n.num, val |-> n.val]]
    ELSE Bad

\* RFC 2696 control value: SEQUENCE { size INTEGER, cookie OCTET STRING }
DPaged(val, strict) ==
    LET f == Forest(val, 1, Len(val)) IN
    IF Len(f) # 1 \/ ~IsCons(f[1], 0, USeq) \/ Len(f[1].kids) < 2 THEN Bad ELSE
    LET s == DInt(f[1].kids[1], UInt)  c == DOct(f[1].kids[2]) IN
    IF s.ok /\ c.ok /\ ExtrasOK(f[1].kids, 3, strict, {}) THEN [ok |-> TRUE, size |-> s.v, cookie |-> c.v] ELSE Bad

PagedOid  == <<49,46,50,46,56,52,48,46,49,49,51,53,53,54,46,49,46,52,46,51,49,57>>          \* 1.2.840.113556.1.4.319
ShowDelOid == <<49,46,50,46,56,52,48,46,49,49,51,53,53,54,46,49,46,52,46,52,49,55>>         \* 1.2.840.113556.1.4.417
ShowDeactOid == <<49,46,50,46,56,52,48,46,49,49,51,53,53,54,46,49,46,52,46,50,48,54,53>>    \* 1.2.840.113556.1.4.2065

\* controls decode to their generic form [type, crit, hasValue, value]; KnownView turns the library-known types
\* into the abstract form the projection uses (domain decision D1)
DControl(n, strict) ==
    IF ~IsCons(n, 0, USeq) \/ Len(n.kids) < 1 THEN Bad ELSE
    LET ks == n.kids
        t == DOct(ks[1])
        hasCrit == Len(ks) >= 2 /\ TagIs(ks[2], 0, UBool)
        crit == IF hasCrit THEN DBool(ks[2], strict) ELSE [ok |-> TRUE, v |-> FALSE]
        p == IF hasCrit THEN 3 ELSE 2
        hasVal == Len(ks) >= p /\ TagIs(ks[p], 0, UOctets)
        val == IF hasVal THEN DOct(ks[p]) ELSE [ok |-> TRUE, v |-> <<>>]
        q == IF hasVal THEN p + 1 ELSE p
    IN  IF ~t.ok \/ ~crit.ok \/ ~val.ok \/ (strict /\ hasCrit /\ ~crit.v) \/ ~ExtrasOK(ks, q, strict, {<<0, UBool>>, <<0, UOctets>>}) THEN Bad
        ELSE [ok |-> TRUE, v |-> [type |-> t.v, crit |-> crit.v, hasValue |-> hasVal, value |-> val.v]]

Generic(type, crit, hasValue, value) ==
    [type |-> type, crit |-> crit, known |-> "no", hasValue |-> hasValue, value |-> value, size |-> Zero, cookie |-> <<>>]
KnownView(c, strict) ==
    IF c.type = PagedOid THEN
        LET p == IF c.hasValue THEN DPaged(c.value, strict) ELSE Bad IN
        IF p.ok THEN [ok |-> TRUE, v |-> [type |-> c.type, crit |-> c.crit, known |-> "paged", hasValue |-> FALSE, value |-> <<>>,
                                           size |-> p.size, cookie |-> p.cookie]]
        ELSE Bad
    ELSE IF c.type \in {ShowDelOid, ShowDeactOid} THEN
        [ok |-> TRUE, v |-> [type |-> c.type, crit |-> c.crit, known |-> "noval", hasValue |-> c.hasValue, value |-> c.value, size |-> Zero, cookie |-> <<>>]]
    ELSE [ok |-> TRUE, v |-> Generic(c.type, c.crit, c.hasValue, c.value)]
DControlK(n, strict) == LET c == DControl(n, strict) IN IF c.ok THEN KnownView(c.v, strict) ELSE Bad

\* LDAPResult components at ks[1..]; returns [ok, v, next]
DResult(ks, strict) ==
    IF Len(ks) < 3 THEN Bad ELSE
    LET c == DInt(ks[1], UEnum)  m == DOct(ks[2])  d == DOct(ks[3])
        hasRef == Len(ks) >= 4 /\ TagIs(ks[4], 2, 3)
        refs == IF hasRef THEN (IF ks[4].cons = 1 THEN DAllOct(ks[4].kids, 1, <<>>) ELSE Bad) ELSE [ok |-> TRUE, vs |-> <<>>]
    IN  IF c.ok /\ m.ok /\ d.ok /\ refs.ok
        THEN [ok |-> TRUE, v |-> [code |-> c.v, matched |-> m.v, diag |-> d.v, hasRef |-> hasRef, refs |-> refs.vs],
              next |-> IF hasRef THEN 5 ELSE 4]
        ELSE Bad

DPartialAttr(n) ==
    IF ~IsCons(n, 0, USeq) \/ Len(n.kids) < 2 \/ ~IsCons(n.kids[2], 0, USet) THEN Bad ELSE
    LET t == DOct(n.kids[1])  vs == DAllOct(n.kids[2].kids, 1, <<>>) IN
    IF t.ok /\ vs.ok THEN [ok |-> TRUE, v |-> [type |-> t.v, vals |-> vs.vs]] ELSE Bad

RECURSIVE DAllPartial(_, _, _)
DAllPartial(ks, j, acc) ==
    IF j > Len(ks) THEN [ok |-> TRUE, vs |-> acc]
    ELSE LET r == DPartialAttr(ks[j]) IN IF r.ok THEN DAllPartial(ks, j + 1, Append(acc, r.v)) ELSE Bad
RECURSIVE DAllControls(_, _, _, _)
DAllControls(ks, j, strict, acc) ==
    IF j > Len(ks) THEN [ok |-> TRUE, vs |-> acc]
    ELSE LET r == DControlK(ks[j], strict) IN IF r.ok THEN DAllControls(ks, j + 1, strict, Append(acc, r.v)) ELSE Bad

DAuth(n, strict) ==
    IF IsPrim(n, 2, 0) THEN [ok |-> TRUE, v |-> [k |-> "simple", password |-> n.val]]
    ELSE IF IsCons(n, 2, 3) /\ Len(n.kids) >= 1 THEN
        LET me == DOct(n.kids[1])
            hasC == Len(n.kids) >= 2 /\ TagIs(n.kids[2], 0, UOctets)
            cr == IF hasC THEN DOct(n.kids[2]) ELSE [ok |-> TRUE, v |-> <<>>]
        IN  IF me.ok /\ cr.ok /\ ExtrasOK(n.kids, IF hasC THEN 3 ELSE 2, strict, {<<0, UOctets>>})
            THEN [ok |-> TRUE, v |-> [k |-> "sasl", mech |-> me.v, hasCreds |-> hasC, creds |-> cr.v]] ELSE Bad
    ELSE IF ~n.bad /\ n.cls = 2 /\ n.cons = 0 /\ n.num \notin {0, 3} THEN [ok |-> TRUE, v |-> [k |-> "other", n |-> n.num, val |-> n.val]]
    ELSE Bad

\* protocolOp; returns [ok, v] where v is the operation's record without id / controls
DOp(n, strict) ==
    IF n.bad \/ n.cls # 1 THEN Bad
    ELSE IF n.num = 2 THEN      \* UnbindRequest ::= [APPLICATION 2] NULL  (primitive, empty)
        IF (n.cons = 0 /\ n.val = <<>>) \/ (~strict /\ n.cons = 1) THEN [ok |-> TRUE, v |-> [op |-> "unbindRequest"]] ELSE Bad
    ELSE IF n.cons # 1 THEN Bad
    ELSE LET ks == n.kids IN
      CASE n.num = 0 ->
             IF Len(ks) < 3 THEN Bad ELSE
             LET ve == DInt(ks[1], UInt)  na == DOct(ks[2])  au == DAuth(ks[3], strict) IN
             IF ve.ok /\ na.ok /\ au.ok /\ ExtrasOK(ks, 4, strict, {})
             THEN [ok |-> TRUE, v |-> [op |-> "bindRequest", version |-> ve.v, name |-> na.v, auth |-> au.v]] ELSE Bad
        [] n.num = 1 ->
             LET r == DResult(ks, strict) IN
             IF ~r.ok THEN Bad ELSE
             LET hasS == Len(ks) >= r.next /\ IsPrim(ks[r.next], 2, 7) IN
             IF ExtrasOK(ks, IF hasS THEN r.next + 1 ELSE r.next, strict, {<<2, 3>>, <<2, 7>>})
             THEN [ok |-> TRUE, v |-> [op |-> "bindResponse", result |-> r.v, hasSasl |-> hasS, sasl |-> IF hasS THEN ks[r.next].val ELSE <<>>]]
             ELSE Bad
        [] n.num = 3 ->
             IF Len(ks) < 8 \/ ~IsCons(ks[8], 0, USeq) THEN Bad ELSE
             LET ba == DOct(ks[1])  sc == DInt(ks[2], UEnum)  de == DInt(ks[3], UEnum)  si == DInt(ks[4], UInt)
                 ti == DInt(ks[5], UInt)  ty == DBool(ks[6], strict)  fi == DFilter(ks[7], strict)  at == DAllOct(ks[8].kids, 1, <<>>) IN
             IF ba.ok /\ sc.ok /\ de.ok /\ si.ok /\ ti.ok /\ ty.ok /\ fi.ok /\ at.ok /\ ExtrasOK(ks, 9, strict, {})
             THEN [ok |-> TRUE, v |-> [op |-> "searchRequest", base |-> ba.v, scope |-> sc.v, deref |-> de.v, size |-> si.v, time |-> ti.v,
                                       typesOnly |-> ty.v, filter |-> fi.v, attrs |-> at.vs]] ELSE Bad
        [] n.num = 4 ->
             IF Len(ks) < 2 \/ ~IsCons(ks[2], 0, USeq) THEN Bad ELSE
             LET na == DOct(ks[1])  at == DAllPartial(ks[2].kids, 1, <<>>) IN
             IF na.ok /\ at.ok /\ ExtrasOK(ks, 3, strict, {}) THEN [ok |-> TRUE, v |-> [op |-> "searchResEntry", name |-> na.v, attrs |-> at.vs]] ELSE Bad
        [] n.num = 5 ->
             LET r == DResult(ks, strict) IN
             IF r.ok /\ ExtrasOK(ks, r.next, strict, {<<2, 3>>}) THEN [ok |-> TRUE, v |-> [op |-> "searchResDone", result |-> r.v]] ELSE Bad
        [] n.num = 19 ->
             LET us == DAllOct(ks, 1, <<>>) IN IF us.ok THEN [ok |-> TRUE, v |-> [op |-> "searchResRef", uris |-> us.vs]] ELSE Bad
        [] n.num = 23 ->
             IF Len(ks) < 1 \/ ~IsPrim(ks[1], 2, 0) THEN Bad ELSE
             LET hasV == Len(ks) >= 2 /\ IsPrim(ks[2], 2, 1) IN
             IF ExtrasOK(ks, IF hasV THEN 3 ELSE 2, strict, {<<2, 0>>, <<2, 1>>})
             THEN [ok |-> TRUE, v |-> [op |-> "extendedReq", name |-> ks[1].val, hasValue |-> hasV, value |-> IF hasV THEN ks[2].val ELSE <<>>]] ELSE Bad
        [] n.num = 24 ->
             LET r == DResult(ks, strict) IN
             IF ~r.ok THEN Bad ELSE
             LET hasN == Len(ks) >= r.next /\ IsPrim(ks[r.next], 2, 10)
                 p == IF hasN THEN r.next + 1 ELSE r.next
                 hasV == Len(ks) >= p /\ IsPrim(ks[p], 2, 11) IN
             IF ExtrasOK(ks, IF hasV THEN p + 1 ELSE p, strict, {<<2, 3>>, <<2, 10>>, <<2, 11>>})
             THEN [ok |-> TRUE, v |-> [op |-> "extendedResp", result |-> r.v, hasName |-> hasN, name |-> IF hasN THEN ks[r.next].val ELSE <<>>,
                                       hasValue |-> hasV, value |-> IF hasV THEN ks[p].val ELSE <<>>]] ELSE Bad
        [] OTHER -> Bad

DMsgNode(n, strict) ==
    IF ~IsCons(n, 0, USeq) \/ Len(n.kids) < 2 THEN Bad ELSE
    LET ks == n.kids
        id == DInt(ks[1], UInt)
        op == DOp(ks[2], strict)
        hasC == Len(ks) >= 3 /\ TagIs(ks[3], 2, 0)
        ctl == IF hasC THEN (IF ks[3].cons = 1 THEN DAllControls(ks[3].kids, 1, strict, <<>>) ELSE Bad)
               ELSE [ok |-> TRUE, vs |-> <<>>]
    IN  IF id.ok /\ op.ok /\ ctl.ok /\ ExtrasOK(ks, IF hasC THEN 4 ELSE 3, strict, {<<2, 0>>, <<2, 10>>})
        THEN [ok |-> TRUE, m |-> op.v @@ [id |-> id.v, controls |-> ctl.vs]] ELSE Bad

\* decode exactly one LDAPMessage occupying all of b
DecMsg(b, strict) ==
    LET f == Forest(b, 1, Len(b)) IN
    IF Len(f) # 1 \/ ForestBad(f) THEN Bad ELSE DMsgNode(f[1], strict)
DecStrict(b) == DecMsg(b, TRUE)
DecLiberal(b) == DecMsg(b, FALSE)

\* ---- classification of raw units for the session layer --------------------------------
\* kind of a decoded message as the session state machine sees it
NoticeOid == <<49,46,51,46,54,46,49,46,52,46,49,46,49,52,54,54,46,50,48,48,51,54>>   \* 1.3.6.1.4.1.1466.20036
=============================================================================
