---------------------------- MODULE LdapMsgGen ----------------------------
(***************************************************************************)
(* Generator instance of LdapMsg: a pool of abstract RFC 4511 messages     *)
(* (base messages x one-field sweeps over the hard regions named by C01),  *)
(* their canonical encodings, and every / random alternative encoding the  *)
(* BER freedoms of C04 permit.                                             *)
(*                                                                         *)
(* One behaviour = one message: "start" --Canon--> "alt" --Choose*-->      *)
(* "done".  Canon emits the message with its canonical octets (cases for   *)
(* C01/C03); the Choose steps extend a choice sequence for EncAlt until    *)
(* the encoding is complete, which is emitted (a case for C04).  Breadth-  *)
(* first TLC enumerates every encoding of the messages in AltSet up to     *)
(* MaxChoices choice points; `tlc -simulate` draws random encodings of all *)
(* messages from the same definition.  Style emits the uniform styles.     *)
(*                                                                         *)
(* In every state TLC checks the oracle's own consistency:                 *)
(*   DecStrict(Enc(m)) = m,  DecLiberal(EncAlt(m, ch)) = m                 *)
(***************************************************************************)
EXTENDS LdapMsg, Json

CONSTANTS MaxChoices,     \* bound on choice points for exhaustive alternative encodings
          AltMaxNodes,    \* messages with at most this many TLV nodes take part in the exhaustive enumeration
          EmitCanon, EmitAlt, Styles,
          MiLo, MiHi,     \* slice of the message pool handled by this TLC process
          EmitCorrupt, CorruptMaxLen   \* single-octet corruptions of the canonical encodings of messages up to this length

\* alternatives tables for LdapMsg's encoder (a cfg substitutes e.g. LenFormMap <- Len2)
Len2 == <<0, 3>>      Len5 == <<0, 1, 2, 3, 4>>
Bool2 == <<0, 1>>     Bool4 == <<0, 1, 2, 3>>
Trail2 == <<0, 2>>    Trail5 == <<0, 1, 2, 3, 4, 5, 6, 7, 8, 9, 10>>

\* ---- octet string pool -----------------------------------------------------------
Rep(x, n) == [j \in 1..n |-> x]
sDn   == <<100, 99, 61, 120>>               \* "dc=x"
sCn   == <<99, 110>>                        \* "cn"
sOid  == <<49, 46, 50, 46, 51>>             \* "1.2.3"
sPw   == <<112, 119>>                       \* "pw"
sMech == <<71, 83, 83, 65, 80, 73>>         \* "GSSAPI"
sUri  == <<108, 100, 97, 112, 58, 47, 47, 120>>  \* "ldap://x"
sU2   == <<195, 169>>                       \* U+00E9
sU3   == <<226, 130, 172>>                  \* U+20AC
sU4   == <<240, 159, 152, 128>>             \* U+1F600
sBin  == <<0, 255, 128, 40, 41, 42, 92>>
sOC1  == <<111, 98, 106, 101, 99, 116, 67, 108, 97, 115, 115>>   \* "objectClass"
sOC2  == <<111, 98, 106, 101, 99, 116, 99, 108, 97, 115, 115>>   \* "objectclass"
sOC3  == <<79, 66, 74, 69, 67, 84, 67, 76, 65, 83, 83>>          \* "OBJECTCLASS"
StrPool == <<Rep(97, 0), Rep(97, 1), Rep(97, 127), Rep(97, 128), Rep(97, 255), Rep(97, 256), sU2, sU3, sU4,
             sU2 \o Rep(98, 126), sU4 \o sU3 \o sU2>>
BinPool == <<Rep(0, 0), <<0>>, <<255>>, sBin, Rep(255, 127), Rep(0, 128), Rep(7, 256)>>

\* ---- integer pool (limb values) ------------------------------------------------------
P(mag) == [neg |-> FALSE, mag |-> mag]
N(mag) == [neg |-> TRUE, mag |-> mag]
IntPool == <<LimbOfInt(0), LimbOfInt(1), LimbOfInt(127), LimbOfInt(128), LimbOfInt(255), LimbOfInt(256), LimbOfInt(32767),
             LimbOfInt(32768), LimbOfInt(65535), LimbOfInt(65536), P(<<127, 255, 255, 255>>), P(<<128, 0, 0, 0>>),
             P(<<128, 0, 0, 0, 0, 0, 0, 0>>), P(<<1, 0, 0, 0, 0, 0, 0, 0, 0>>),
             LimbOfInt(-1), LimbOfInt(-128), LimbOfInt(-129), LimbOfInt(-32768), LimbOfInt(-65536), N(<<128, 0, 0, 0>>),
             N(<<1, 0, 0, 0, 0>>), N(<<128, 0, 0, 0, 0, 0, 0, 0>>)>>
CodePool == <<LimbOfInt(0), LimbOfInt(2), LimbOfInt(14), LimbOfInt(80), LimbOfInt(9), LimbOfInt(10), LimbOfInt(127), LimbOfInt(128),
              LimbOfInt(255), LimbOfInt(4096), LimbOfInt(16654), LimbOfInt(8388608)>>

\* ---- building blocks -------------------------------------------------------------------
L(n) == LimbOfInt(n)
Res(code, hasRef, refs) == [code |-> code, matched |-> <<>>, diag |-> <<>>, hasRef |-> hasRef, refs |-> refs]
Ok == Res(L(0), FALSE, <<>>)
GCtl(type, crit, hasValue, value) == Generic(type, crit, hasValue, value)
Paged(crit, size, cookie) == [type |-> PagedOid, crit |-> crit, known |-> "paged", hasValue |-> FALSE, value |-> <<>>, size |-> size, cookie |-> cookie]
NoVal(type, crit) == [type |-> type, crit |-> crit, known |-> "noval", hasValue |-> FALSE, value |-> <<>>, size |-> Zero, cookie |-> <<>>]

Eq(a, v)      == [k |-> "eq", attr |-> a, v |-> v]
Ge(a, v)      == [k |-> "ge", attr |-> a, v |-> v]
Le(a, v)      == [k |-> "le", attr |-> a, v |-> v]
Approx(a, v)  == [k |-> "approx", attr |-> a, v |-> v]
Present(a)    == [k |-> "present", attr |-> a]
Sub(a, hi, i, any, hf, f) == [k |-> "sub", attr |-> a, hasIni |-> hi, ini |-> i, any |-> any, hasFin |-> hf, fin |-> f]
Ext(hr, r, ha, a, v, dn) == [k |-> "ext", hasRule |-> hr, rule |-> r, hasAttr |-> ha, attr |-> a, v |-> v, dn |-> dn]
And(fs) == [k |-> "and", fs |-> fs]
Or(fs)  == [k |-> "or", fs |-> fs]
Not(f)  == [k |-> "not", f |-> f]
RECURSIVE NotChain(_, _)
NotChain(f, n) == IF n = 0 THEN f ELSE Not(NotChain(f, n - 1))

BindS(id, ctl, ver, name, pw) == [op |-> "bindRequest", id |-> id, controls |-> ctl, version |-> ver, name |-> name,
                                  auth |-> [k |-> "simple", password |-> pw]]
BindX(id, ctl, mech, hasC, c) == [op |-> "bindRequest", id |-> id, controls |-> ctl, version |-> L(3), name |-> <<>>,
                                  auth |-> [k |-> "sasl", mech |-> mech, hasCreds |-> hasC, creds |-> c]]
BindR(id, ctl, r, hasS, s)    == [op |-> "bindResponse", id |-> id, controls |-> ctl, result |-> r, hasSasl |-> hasS, sasl |-> s]
Unbind(id, ctl)               == [op |-> "unbindRequest", id |-> id, controls |-> ctl]
Search(id, ctl, base, sc, de, si, ti, ty, f, at) ==
    [op |-> "searchRequest", id |-> id, controls |-> ctl, base |-> base, scope |-> sc, deref |-> de, size |-> si, time |-> ti,
     typesOnly |-> ty, filter |-> f, attrs |-> at]
Entry(id, ctl, name, at)      == [op |-> "searchResEntry", id |-> id, controls |-> ctl, name |-> name, attrs |-> at]
Done(id, ctl, r)              == [op |-> "searchResDone", id |-> id, controls |-> ctl, result |-> r]
Ref(id, ctl, uris)            == [op |-> "searchResRef", id |-> id, controls |-> ctl, uris |-> uris]
ExtReq(id, ctl, name, hv, v)  == [op |-> "extendedReq", id |-> id, controls |-> ctl, name |-> name, hasValue |-> hv, value |-> v]
ExtResp(id, ctl, r, hn, n, hv, v) == [op |-> "extendedResp", id |-> id, controls |-> ctl, result |-> r, hasName |-> hn, name |-> n,
                                      hasValue |-> hv, value |-> v]
SearchF(f) == Search(L(2), <<>>, sDn, L(2), L(0), L(0), L(0), FALSE, f, <<sCn>>)
PA(type, vals) == [type |-> type, vals |-> vals]

Ctls0 == <<>>
Ctls1 == <<GCtl(sOid, FALSE, FALSE, <<>>)>>
Ctls2 == <<GCtl(sOid, TRUE, TRUE, sBin)>>
Ctls3 == <<GCtl(sOid, FALSE, TRUE, <<>>)>>
Ctls4 == <<Paged(FALSE, L(0), <<>>)>>
Ctls5 == <<Paged(TRUE, L(1000), sBin)>>
Ctls6 == <<NoVal(ShowDelOid, FALSE), NoVal(ShowDeactOid, TRUE)>>
Ctls7 == <<GCtl(sOid, TRUE, FALSE, <<>>), Paged(TRUE, P(<<128, 0, 0, 0>>), Rep(9, 130)), NoVal(ShowDelOid, TRUE)>>
CtlPool == <<Ctls1, Ctls2, Ctls3, Ctls4, Ctls5, Ctls6, Ctls7>>

FilterPool == <<
    Present(sCn), Eq(sCn, <<97>>), Eq(sCn, <<>>), Ge(sCn, sBin), Le(sCn, <<49>>), Approx(sCn, sU2),
    Sub(sCn, TRUE, <<97>>, <<>>, FALSE, <<>>), Sub(sCn, FALSE, <<>>, <<<<98>>>>, FALSE, <<>>), Sub(sCn, FALSE, <<>>, <<>>, TRUE, <<99>>),
    Sub(sCn, TRUE, <<97>>, <<<<98>>, sBin>>, TRUE, <<99>>), Sub(sCn, TRUE, <<>>, <<>>, TRUE, <<>>),
    Ext(TRUE, sOid, FALSE, <<>>, <<97>>, FALSE), Ext(FALSE, <<>>, TRUE, sCn, <<97>>, FALSE), Ext(TRUE, sOid, TRUE, sCn, <<>>, TRUE),
    Ext(FALSE, <<>>, TRUE, sCn, sBin, TRUE), Ext(TRUE, <<>>, TRUE, <<>>, <<>>, FALSE),
    Not(Present(sCn)), And(<<Present(sCn)>>), Or(<<Present(sCn), Eq(sCn, <<97>>)>>), And(<<>>),
    And(<<Or(<<Eq(sCn, <<97>>), Not(Ext(TRUE, sOid, TRUE, sCn, <<98>>, TRUE))>>), Sub(sCn, TRUE, <<97>>, <<<<98>>>>, TRUE, <<99>>), Present(sCn)>>),
    NotChain(Present(sCn), 5), NotChain(Eq(sCn, <<97>>), 50)>>

Base == <<
    BindS(L(1), Ctls0, L(3), sDn, sPw), BindS(L(1), Ctls0, L(3), <<>>, <<>>),
    BindX(L(1), Ctls0, sMech, FALSE, <<>>), BindX(L(1), Ctls0, sMech, TRUE, <<>>), BindX(L(1), Ctls0, <<>>, TRUE, sBin),
    BindR(L(1), Ctls0, Ok, FALSE, <<>>), BindR(L(1), Ctls0, Res(L(14), FALSE, <<>>), TRUE, <<>>), BindR(L(1), Ctls0, Res(L(49), FALSE, <<>>), TRUE, sBin),
    BindR(L(1), Ctls0, Res(L(10), TRUE, <<sUri>>), TRUE, sBin),
    Unbind(L(0), Ctls0),
    SearchF(Present(sCn)),
    Search(L(2), Ctls0, <<>>, L(0), L(3), L(1000), L(30), TRUE, Eq(sCn, <<97>>), <<>>),
    Search(L(2), Ctls0, sDn, L(1), L(1), L(0), L(0), FALSE, Present(sCn), <<sCn, <<42>>, <<49, 46, 49>>>>),
    Entry(L(2), Ctls0, sDn, <<>>), Entry(L(2), Ctls0, <<>>, <<PA(sCn, <<>>)>>), Entry(L(2), Ctls0, sDn, <<PA(sCn, <<<<97>>, sBin>>), PA(sOid, <<<<>>>>)>>),
    Entry(L(2), Ctls0, sDn, <<PA(sOC1, <<sCn>>), PA(sOC2, <<sCn>>), PA(sOC3, <<>>)>>), Entry(L(2), Ctls0, sDn, <<PA(sOC3, <<sCn>>), PA(sOC1, <<sCn>>)>>),
    Search(L(2), Ctls0, sOC1, L(2), L(0), L(0), L(0), FALSE, And(<<Eq(sOC1, sOC1), Eq(sOC2, sOC2), Present(sOC3)>>), <<sOC1, sOC2, sOC3>>),
    Done(L(2), Ctls0, Ok), Done(L(2), Ctls0, Res(L(10), TRUE, <<sUri, sUri>>)), Done(L(2), Ctls0, Res(L(0), TRUE, <<>>)),
    Done(L(2), Ctls0, [code |-> L(32), matched |-> sDn, diag |-> sU3, hasRef |-> FALSE, refs |-> <<>>]),
    Ref(L(2), Ctls0, <<sUri>>), Ref(L(2), Ctls0, <<sUri, sU4>>), Ref(L(2), Ctls0, <<>>),
    ExtReq(L(3), Ctls0, sOid, FALSE, <<>>), ExtReq(L(3), Ctls0, sOid, TRUE, <<>>), ExtReq(L(3), Ctls0, <<>>, TRUE, sBin),
    ExtResp(L(3), Ctls0, Ok, FALSE, <<>>, FALSE, <<>>), ExtResp(L(3), Ctls0, Ok, TRUE, <<>>, TRUE, <<>>), ExtResp(L(3), Ctls0, Res(L(2), FALSE, <<>>), TRUE, NoticeOid, FALSE, <<>>),
    ExtResp(L(0), Ctls0, Res(L(52), TRUE, <<sUri>>), TRUE, sOid, TRUE, sBin)>>

\* one-field sweeps
SweepId      == [j \in 1..Len(IntPool) |-> ExtReq(IntPool[j], Ctls0, sOid, FALSE, <<>>)]
SweepSize    == [j \in 1..Len(IntPool) |-> Search(L(2), Ctls0, sDn, L(2), L(0), IntPool[j], IntPool[Len(IntPool) + 1 - j], FALSE, Present(sCn), <<>>)]
SweepVersion == [j \in 1..Len(IntPool) |-> BindS(L(1), Ctls0, IntPool[j], <<>>, <<>>)]
SweepCode    == [j \in 1..Len(CodePool) |-> Done(L(2), Ctls0, Res(CodePool[j], FALSE, <<>>))]
SweepCodeB   == [j \in 1..Len(CodePool) |-> BindR(L(1), Ctls0, Res(CodePool[j], FALSE, <<>>), FALSE, <<>>)]
SweepStrName == [j \in 1..Len(StrPool) |-> BindS(L(1), Ctls0, L(3), StrPool[j], StrPool[Len(StrPool) + 1 - j])]
SweepStrRes  == [j \in 1..Len(StrPool) |-> ExtResp(L(3), Ctls0, [code |-> L(0), matched |-> StrPool[j], diag |-> StrPool[Len(StrPool) + 1 - j], hasRef |-> TRUE, refs |-> <<StrPool[j]>>], TRUE, StrPool[j], FALSE, <<>>)]
SweepStrEnt  == [j \in 1..Len(StrPool) |-> Entry(L(2), Ctls0, StrPool[j], <<PA(StrPool[j], <<StrPool[j], StrPool[Len(StrPool) + 1 - j]>>)>>)]
SweepStrSrch == [j \in 1..Len(StrPool) |-> Search(L(2), Ctls0, StrPool[j], L(2), L(0), L(0), L(0), FALSE, Eq(StrPool[j], StrPool[j]), <<StrPool[j]>>)]
SweepBin     == [j \in 1..Len(BinPool) |-> ExtReq(L(3), Ctls0, sOid, TRUE, BinPool[j])]
SweepBinSasl == [j \in 1..Len(BinPool) |-> BindR(L(1), Ctls0, Res(L(14), FALSE, <<>>), TRUE, BinPool[j])]
SweepBinFlt  == [j \in 1..Len(BinPool) |-> SearchF(Sub(sCn, TRUE, BinPool[j], <<BinPool[j]>>, TRUE, BinPool[j]))]
SweepFilter  == [j \in 1..Len(FilterPool) |-> SearchF(FilterPool[j])]
SweepCtl     == [j \in 1..Len(CtlPool) |-> Search(L(2), CtlPool[j], sDn, L(2), L(0), L(0), L(0), FALSE, Present(sCn), <<>>)]
SweepCtlResp == [j \in 1..Len(CtlPool) |-> Done(L(2), CtlPool[j], Ok)]
SweepCtlUnb  == [j \in 1..Len(CtlPool) |-> Unbind(L(0), CtlPool[j])]
SweepPaged   == [j \in 1..Len(IntPool) |-> Done(L(2), <<Paged(FALSE, IntPool[j], <<>>)>>, Ok)]

Msgs == Base \o SweepId \o SweepSize \o SweepVersion \o SweepCode \o SweepCodeB \o SweepStrName \o SweepStrRes \o SweepStrEnt
        \o SweepStrSrch \o SweepBin \o SweepBinSasl \o SweepBinFlt \o SweepFilter \o SweepCtl \o SweepCtlResp \o SweepCtlUnb \o SweepPaged
NMsgs == Len(Msgs)
Nodes(j) == NodeCount(Tree(Msgs[j], FALSE))

\* ---- state machine ------------------------------------------------------------------------
VARIABLES mi, xd, phase, ch
vars == <<mi, xd, phase, ch>>

Init == /\ mi \in {j \in 1..NMsgs : MiLo <= j /\ j <= MiHi} /\ xd \in BOOLEAN /\ phase = "start" /\ ch = <<>>

Canon == /\ phase = "start"
         /\ phase' = IF Nodes(mi) <= AltMaxNodes THEN "alt" ELSE "done"
         /\ UNCHANGED <<mi, xd, ch>>
         /\ ((EmitCanon /\ ~xd) => PrintT(<<"CANON", ToJson([mi |-> mi, m |-> Msgs[mi], enc |-> Enc(Msgs[mi])])>>))

Choose == /\ phase = "alt"
          /\ LET r == EncAlt(Tree(Msgs[mi], xd), ch) IN
             IF HasNeed(r)
             THEN /\ Len(ch) < MaxChoices
                  /\ \E x \in 0..(r.need - 1) : ch' = Append(ch, x)
                  /\ UNCHANGED <<mi, xd, phase>>
             ELSE /\ phase' = "done"
                  /\ UNCHANGED <<mi, xd, ch>>
                  /\ (EmitAlt => PrintT(<<"ALT", ToJson([mi |-> mi, xd |-> xd, ch |-> ch, m |-> Msgs[mi], enc |-> r.bytes])>>))

\* uniform styles: one length form, one TRUE octet, one trailer for the whole message
Style == /\ phase = "start" /\ Styles
         /\ \E lf \in 0..4, bo \in 0..3, tr \in 0..14 :
               /\ ch' = <<lf, bo, tr>>
               /\ PrintT(<<"ALT", ToJson([mi |-> mi, xd |-> xd, ch |-> <<lf, bo, tr>>, m |-> Msgs[mi],
                                          enc |-> EncStyleNode(Tree(Msgs[mi], xd), lf, bo, tr)])>>)
         /\ phase' = "styled"
         /\ UNCHANGED <<mi, xd>>

\* ---- single-octet corruptions (C05, C06) ----------------------------------------------------------------------
\* Every octet of a canonical encoding is an identifier octet, a length octet or a content octet of some TLV node;
\* replacing it by each value of CorruptVals (boundary lengths, flipped class / constructed bits, neighbours),
\* deleting it or inserting an octet before it yields every single-node corruption of the kinds C05 names: length
\* +-1 / zero / overrunning / indefinite (0x80) / long form (0x81, 0x82, 0x84), tag class / number / form changes,
\* content changes, truncation.  Emitted with what the independent framer makes of the octets.
XorBit(o, b) == IF (o \div b) % 2 = 1 THEN o - b ELSE o + b
CorruptVals(o) == ({0, 1, 2, 4, 5, 48, 127, 128, 129, 130, 132, 160, 255, (o + 1) % 256, (o + 255) % 256, XorBit(o, 32), XorBit(o, 64), XorBit(o, 128)}) \ {o}
Corrupted(b, pos, kind, v) ==
    CASE kind = "set" -> [b EXCEPT ![pos] = v]
      [] kind = "del" -> SubSeq(b, 1, pos - 1) \o SubSeq(b, pos + 1, Len(b))
      [] kind = "ins" -> SubSeq(b, 1, pos - 1) \o <<v>> \o SubSeq(b, pos, Len(b))
EmitCorruption(pos, kind, v) ==
    LET c == Corrupted(Enc(Msgs[mi]), pos, kind, v)
        f == Frame(c, 1, 0)
        d == IF f.n = 1 /\ f.why = "end" THEN DecLiberal(c) ELSE [ok |-> FALSE]
    IN  PrintT(<<"CORRUPT", ToJson([mi |-> mi, op |-> Msgs[mi].op, id |-> Msgs[mi].id, pos |-> pos, kind |-> kind, v |-> v, bytes |-> c,
                                    units |-> f.n, why |-> f.why, tail |-> Len(c) + 1 - f.tail,
                                    stillValid |-> d.ok, sameValue |-> d.ok /\ d.m = Msgs[mi]])>>)
Corrupt == /\ phase = "start" /\ EmitCorrupt /\ ~xd /\ Len(Enc(Msgs[mi])) <= CorruptMaxLen
           /\ \E pos \in 1..Len(Enc(Msgs[mi])) :
                 \/ \E v \in CorruptVals(Enc(Msgs[mi])[pos]) : ch' = <<pos, 0, v>> /\ EmitCorruption(pos, "set", v)
                 \/ ch' = <<pos, 1, 0>> /\ EmitCorruption(pos, "del", 0)
                 \/ \E v \in {0, 48, 128, 255} : ch' = <<pos, 2, v>> /\ EmitCorruption(pos, "ins", v)
           /\ phase' = "corrupted"
           /\ UNCHANGED <<mi, xd>>

Next == Canon \/ Choose \/ Style \/ Corrupt
Spec == Init /\ [][Next]_vars

\* ---- the oracle's own theorems -----------------------------------------------------------------
CanonRoundTrip == phase = "start" => DecStrict(Enc(Msgs[mi])) = [ok |-> TRUE, m |-> Msgs[mi]]
CanonLiberal   == phase = "start" => DecLiberal(Enc(Msgs[mi])) = [ok |-> TRUE, m |-> Msgs[mi]]
ExplicitDefaultsLiberal == phase = "start" => DecLiberal(EncNode(Tree(Msgs[mi], TRUE))) = [ok |-> TRUE, m |-> Msgs[mi]]
AltRoundTrip   == phase \in {"alt", "done"} =>
                     LET r == EncAlt(Tree(Msgs[mi], xd), ch) IN
                     HasNeed(r) \/ DecLiberal(r.bytes) = [ok |-> TRUE, m |-> Msgs[mi]]
StyleRoundTrip == phase = "styled" =>
                     DecLiberal(EncStyleNode(Tree(Msgs[mi], xd), ch[1], ch[2], ch[3])) = [ok |-> TRUE, m |-> Msgs[mi]]
\* strictness is real: an alternative encoding that differs from the canonical one in anything but
\* length octets is rejected by the strict decoder
StrictRejectsFreedoms ==
    (/\ phase = "styled"
     /\ (ch[2] # 0 \/ ch[3] # 0 \/ xd)
     /\ EncStyleNode(Tree(Msgs[mi], xd), 0, ch[2], ch[3]) # Enc(Msgs[mi]))
    => ~DecStrict(EncStyleNode(Tree(Msgs[mi], xd), ch[1], ch[2], ch[3])).ok
\* the independent framer on corrupted octets: complete units plus tail account for every octet
FrameAccountsForAll == phase = "corrupted" =>
    LET c == Corrupted(Enc(Msgs[mi]), ch[1], CASE ch[2] = 0 -> "set" [] ch[2] = 1 -> "del" [] ch[2] = 2 -> "ins", ch[3])
        f == Frame(c, 1, 0)
    IN  f.tail >= 1 /\ f.tail <= Len(c) + 1 /\ (f.why = "end" <=> f.tail = Len(c) + 1)
=============================================================================
