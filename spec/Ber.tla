------------------------------- MODULE Ber -------------------------------
(***************************************************************************)
(* X.690 definite-length BER over octet sequences, written from X.690 §8   *)
(* (identifier octets 8.1.2, length octets 8.1.3, BOOLEAN 8.2, INTEGER     *)
(* 8.3) and NOT from sansldap/asn1.py.  Octets are 0..255, byte strings    *)
(* are Seq(0..255).                                                        *)
(*                                                                         *)
(* TLC integers are 32 bit, so unbounded quantities are digit sequences:   *)
(*   - an unbounded INTEGER value is a "limb value"                        *)
(*       [neg |-> BOOLEAN, mag |-> big-endian base-256 magnitude without   *)
(*        leading zero octet]   (zero is [neg |-> FALSE, mag |-> <<>>])    *)
(*   - a tag number is a big-endian base-128 digit sequence w/o leading 0  *)
(*   - a length is a big-endian base-256 digit sequence w/o leading 0      *)
(* "Small" variants working on TLC integers are provided for the message   *)
(* layer, where tag numbers and lengths are far below 2^31.                *)
(***************************************************************************)
EXTENDS Naturals, Integers, Sequences

Octet == 0..255

Take(s, n) == SubSeq(s, 1, n)
Drop(s, n) == SubSeq(s, n + 1, Len(s))

RECURSIVE StripZeros(_)
StripZeros(d) == IF d # <<>> /\ d[1] = 0 THEN StripZeros(Tail(d)) ELSE d

\* ---- base-B digit sequences (big endian) <-> small naturals ------------
RECURSIVE DigitsOf(_, _)
DigitsOf(n, base) == IF n = 0 THEN <<>> ELSE Append(DigitsOf(n \div base, base), n % base)

RECURSIVE ValueOfFrom(_, _, _, _)
ValueOfFrom(d, base, i, acc) == IF i > Len(d) THEN acc ELSE ValueOfFrom(d, base, i + 1, acc * base + d[i])
ValueOf(d, base) == ValueOfFrom(d, base, 1, 0)
\* a digit sequence denotes a number below 2^24 (safe for 32-bit arithmetic)
IsSmall256(d) == Len(StripZeros(d)) <= 3
IsSmall128(d) == Len(StripZeros(d)) <= 3

\* ---- octet-wise arithmetic on fixed-width big-endian magnitudes --------
Complement(d) == [i \in 1..Len(d) |-> 255 - d[i]]

\* d + 1 on a fixed width (carry out of the top octet widens the result)
RECURSIVE IncFrom(_, _)
IncFrom(d, i) ==
    IF i = 0 THEN <<1>> \o d
    ELSE IF d[i] = 255 THEN IncFrom([d EXCEPT ![i] = 0], i - 1)
    ELSE [d EXCEPT ![i] = @ + 1]
Inc(d) == IncFrom(d, Len(d))

\* d - 1 for d > 0 on a fixed width
RECURSIVE DecFrom(_, _)
DecFrom(d, i) ==
    IF d[i] = 0 THEN DecFrom([d EXCEPT ![i] = 255], i - 1)
    ELSE [d EXCEPT ![i] = @ - 1]
Dec(d) == DecFrom(d, Len(d))

\* ---- INTEGER (X.690 8.3): two's complement, minimal number of octets ----
IsLimb(v) == /\ v.neg \in BOOLEAN
             /\ v.mag \in Seq(Octet)
             /\ (v.mag # <<>> => v.mag[1] # 0)
             /\ (v.mag = <<>> => ~v.neg)

Zero == [neg |-> FALSE, mag |-> <<>>]
LimbOfNat(n) == [neg |-> FALSE, mag |-> DigitsOf(n, 256)]
LimbOfInt(n) == IF n >= 0 THEN LimbOfNat(n) ELSE [neg |-> TRUE, mag |-> DigitsOf(0 - n, 256)]

\* content octets of value v: for v >= 0 the magnitude, prefixed by 00 iff its
\* top bit is set; for v < 0 the n-octet representation of 256^n - |v|, i.e.
\* the complement of (|v| - 1) padded to the least n that leaves the top bit 1.
IntContent(v) ==
    IF ~v.neg
    THEN IF v.mag = <<>> THEN <<0>>
         ELSE IF v.mag[1] >= 128 THEN <<0>> \o v.mag ELSE v.mag
    ELSE LET m1 == StripZeros(Dec(v.mag))            \* |v| - 1
         IN  IF m1 = <<>> THEN <<255>>
             ELSE IF m1[1] >= 128 THEN <<255>> \o Complement(m1) ELSE Complement(m1)

\* value denoted by any non-empty content octets (minimal or sign-padded)
IntValue(c) ==
    IF c[1] < 128 THEN [neg |-> FALSE, mag |-> StripZeros(c)]
    ELSE [neg |-> TRUE, mag |-> StripZeros(Inc(Complement(c)))]

\* 8.3.2: the first nine bits are not all equal
IsMinimalInt(c) ==
    /\ Len(c) >= 1
    /\ ~(Len(c) > 1 /\ ((c[1] = 0 /\ c[2] < 128) \/ (c[1] = 255 /\ c[2] >= 128)))

\* small-int view of a limb value, when it fits
LimbIsSmall(v) == Len(v.mag) <= 3
SmallOfLimb(v) == IF v.neg THEN 0 - ValueOf(v.mag, 256) ELSE ValueOf(v.mag, 256)

\* ---- identifier octets (8.1.2) -------------------------------------------
\* cls 0..3, cons 0/1, num = base-128 digit sequence (<<>> is 0)
Base128Octets(d) == [i \in 1..Len(d) |-> IF i < Len(d) THEN 128 + d[i] ELSE d[i]]
IdOctets(cls, cons, num) ==
    LET first == cls * 64 + cons * 32
        n == StripZeros(num)
    IN  IF Len(n) = 0 THEN <<first>>
        ELSE IF Len(n) = 1 /\ n[1] < 31 THEN <<first + n[1]>>
        ELSE <<first + 31>> \o Base128Octets(n)
IdOctetsSmall(cls, cons, num) == IdOctets(cls, cons, DigitsOf(num, 128))

\* ---- length octets (8.1.3) ---------------------------------------------
\* minimal definite form of a length given as base-256 digits
LenOctetsMin(len) ==
    LET n == StripZeros(len)
    IN  IF Len(n) = 0 THEN <<0>>
        ELSE IF Len(n) = 1 /\ n[1] < 128 THEN <<n[1]>>
        ELSE <<128 + Len(n)>> \o n
LenOctetsMinSmall(n) == LenOctetsMin(DigitsOf(n, 256))
\* long form with exactly k length octets (k >= number of significant octets)
RECURSIVE ZeroPad(_, _)
ZeroPad(d, k) == IF Len(d) >= k THEN d ELSE ZeroPad(<<0>> \o d, k)
LenOctetsLong(n, k) == <<128 + k>> \o ZeroPad(DigitsOf(n, 256), k)

\* ---- header parser: the independent framing oracle -----------------------
\* Result: [ok |-> TRUE, cls, cons, num (base-128 digits), hl, len (base-256 digits)]
\*      or [ok |-> FALSE, why |-> "short" | "indefinite"]
RECURSIVE HighTag(_, _, _)
HighTag(b, p, acc) ==
    IF p > Len(b) THEN [ok |-> FALSE, why |-> "short"]
    ELSE IF b[p] >= 128 THEN HighTag(b, p + 1, Append(acc, b[p] - 128))
    ELSE [ok |-> TRUE, num |-> StripZeros(Append(acc, b[p])), used |-> Len(acc) + 1]

HeaderBig(b, p) ==
    IF p > Len(b) THEN [ok |-> FALSE, why |-> "short"] ELSE
    LET o   == b[p]
        low == o % 32
        tg  == IF low = 31 THEN HighTag(b, p + 1, <<>>)
               ELSE [ok |-> TRUE, num |-> StripZeros(<<low>>), used |-> 0]
    IN  IF ~tg.ok THEN tg ELSE
        LET q == p + 1 + tg.used IN
        IF q > Len(b) THEN [ok |-> FALSE, why |-> "short"] ELSE
        LET l == b[q] IN
        IF l < 128 THEN [ok |-> TRUE, cls |-> o \div 64, cons |-> (o \div 32) % 2, num |-> tg.num,
                         hl |-> q - p + 1, len |-> StripZeros(<<l>>)]
        ELSE IF l = 128 THEN [ok |-> FALSE, why |-> "indefinite"]
        ELSE IF q + (l - 128) > Len(b) THEN [ok |-> FALSE, why |-> "short"]
        ELSE [ok |-> TRUE, cls |-> o \div 64, cons |-> (o \div 32) % 2, num |-> tg.num,
              hl |-> q - p + 1 + (l - 128), len |-> StripZeros(SubSeq(b, q + 1, q + (l - 128)))]

\* Small view used by the message layer: tag number and length as TLC integers.
\* A header whose number or length does not fit 2^24 is reported "big".
Header(b, p) ==
    LET h == HeaderBig(b, p) IN
    IF ~h.ok THEN h
    ELSE IF ~IsSmall128(h.num) \/ ~IsSmall256(h.len) THEN [ok |-> FALSE, why |-> "big"]
    ELSE [ok |-> TRUE, cls |-> h.cls, cons |-> h.cons, num |-> ValueOf(h.num, 128),
          hl |-> h.hl, len |-> ValueOf(h.len, 256)]

\* ---- framing: complete outer TLVs in a buffer ----------------------------
\* number of complete top-level TLVs starting at p and the position of the tail;
\* why = "end" (buffer exhausted exactly), "short" (incomplete unit), or the
\* reason no length can be determined ("indefinite", "big")
RECURSIVE Frame(_, _, _)
Frame(b, p, n) ==
    IF p > Len(b) THEN [n |-> n, tail |-> p, why |-> "end"] ELSE
    LET h == Header(b, p) IN
    IF ~h.ok THEN [n |-> n, tail |-> p, why |-> h.why]
    ELSE IF p + h.hl + h.len - 1 > Len(b) THEN [n |-> n, tail |-> p, why |-> "short"]
    ELSE Frame(b, p + h.hl + h.len, n + 1)

\* ---- generic TLV forest of b[p..e] ----------------------------------------
\* primitive node: [cls, cons |-> 0, num, val, lenform]; constructed: [cls, cons |-> 1, num, kids, lenform]
\* lenform = number of length octets used (1 = short form or 0x81.., etc.)
\* a malformed region yields a single [bad |-> TRUE] node
\* The siblings are parsed in blocks of ForestBlock so that the recursion depth is ForestBlock + siblings / ForestBlock
\* rather than the number of siblings (a corrupt length can turn 64 KiB of content into 32768 empty siblings).
ForestBlock == 64
RECURSIVE Forest(_, _, _), ForestN(_, _, _, _)
\* up to n siblings from p: [f |-> nodes, next |-> position after them, stop |-> no more siblings follow]
ForestN(b, p, e, n) ==
    IF p > e THEN [f |-> <<>>, next |-> p, stop |-> TRUE]
    ELSE IF n = 0 THEN [f |-> <<>>, next |-> p, stop |-> FALSE] ELSE
    LET h == Header(b, p) IN
    IF ~h.ok \/ p + h.hl + h.len - 1 > e THEN [f |-> <<[bad |-> TRUE]>>, next |-> e + 1, stop |-> TRUE]
    ELSE LET cs == p + h.hl
             ce == p + h.hl + h.len - 1
             node == IF h.cons = 1
                     THEN [bad |-> FALSE, cls |-> h.cls, cons |-> 1, num |-> h.num, kids |-> Forest(b, cs, ce)]
                     ELSE [bad |-> FALSE, cls |-> h.cls, cons |-> 0, num |-> h.num, val |-> SubSeq(b, cs, ce)]
             r == ForestN(b, ce + 1, e, n - 1)
         IN  [f |-> <<node>> \o r.f, next |-> r.next, stop |-> r.stop]
Forest(b, p, e) ==
    IF p > e THEN <<>> ELSE
    LET blk == ForestN(b, p, e, ForestBlock) IN
    IF blk.stop THEN blk.f ELSE blk.f \o Forest(b, blk.next, e)

RECURSIVE ForestBad(_)
ForestBad(f) ==
    \E i \in 1..Len(f) : f[i].bad \/ (f[i].cons = 1 /\ ForestBad(f[i].kids))

\* ---- canonical TLV writer (minimal lengths) -------------------------------
TLV(cls, cons, num, content) ==
    IdOctetsSmall(cls, cons, num) \o LenOctetsMinSmall(Len(content)) \o content

\* universal tag numbers used by LDAP
UBool == 1  UInt == 2  UOctets == 4  UNull == 5  UEnum == 10  USeq == 16  USet == 17
=============================================================================
