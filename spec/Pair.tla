-------------------------------- MODULE Pair --------------------------------
(***************************************************************************)
(* A client session and a server session joined by two reliable in-order   *)
(* byte pipes (C11, C02, C12): every interleaving of client calls, server  *)
(* calls, partial drains and partial deliveries.                           *)
(*                                                                         *)
(* A message on the wire is W octets <<m, 1>> .. <<m, W>> (m a descriptor  *)
(* [k, id]); W = 1 makes delivery atomic, W = 3 distinguishes "cut inside  *)
(* the header", "header complete, body not", "complete".                   *)
(*                                                                         *)
(* The applications behave as C11 assumes: they only make calls their      *)
(* session accepts, a server answers a request with responses of the       *)
(* matching kind (ghost kindOf), and nothing is fed to a CLOSED session    *)
(* (the connection is gone: bytes in flight to it are dropped).            *)
(***************************************************************************)
EXTENDS SessionCore, TLC

CONSTANTS W, MaxId, MaxPipe, MaxOb

VARIABLES c, s,          \* protocol states of client and server (SessionCore)
          cob, sob,      \* outgoing buffers (octets not yet drained)
          c2s, s2c,      \* pipes
          cib, sib,      \* incoming residue (octets of an incomplete unit)
          kindOf,        \* ghost: request kind of every id the client has used
          call           \* label of the last step (hidden by VIEW)
vars == <<c, s, cob, sob, c2s, s2c, cib, sib, kindOf, call>>

Octets(m) == [j \in 1..W |-> <<m, j>>]
Ids == 1..MaxId

\* ---- framing of a token buffer: complete units and residue ------------------------
NUnits(buf) == Len(buf) \div W
UnitsOf(buf) == [u \in 1..NUnits(buf) |-> buf[(u - 1) * W + 1][1]]
ResidueOf(buf) == SubSeq(buf, NUnits(buf) * W + 1, Len(buf))
RECURSIVE Flatten(_, _)
Flatten(ms, j) == IF j > Len(ms) THEN <<>> ELSE Octets(ms[j]) \o Flatten(ms, j + 1)

\* receive(chunk) on an endpoint with residue ib: the library parses every complete unit of ib \o chunk
RecvBuf(role, x, ib, chunk) ==
    LET buf == ib \o chunk
        ms == UnitsOf(buf)
        r == Receive(role, x, ms)
    IN  [post |-> r.post, res |-> r.res, err |-> r.err,
         msgs |-> IF r.res = "ok" THEN ms ELSE <<>>,
         ib |-> IF r.res = "ok" THEN ResidueOf(buf) ELSE <<>>]

Init == /\ c = InitState /\ s = InitState
        /\ cob = <<>> /\ sob = <<>> /\ c2s = <<>> /\ s2c = <<>> /\ cib = <<>> /\ sib = <<>>
        /\ kindOf = [i \in Ids |-> "none"]
        /\ call = [op |-> "init"]

\* ---- application steps -----------------------------------------------------------------
ClientCall(k) ==
    LET r == ClientSend(c, k) IN
    /\ c.ctr <= MaxId /\ r.res = "ok" /\ Len(cob) + W <= MaxOb
    /\ c' = r.post /\ cob' = cob \o Octets(r.emit[1])
    /\ kindOf' = [kindOf EXCEPT ![r.ret] = k]
    /\ call' = [op |-> "ccall", k |-> k, id |-> r.ret]
    /\ UNCHANGED <<s, sob, c2s, s2c, cib, sib>>

ClientUnbind ==
    LET r == Unbind(c) IN
    /\ r.res = "ok" /\ Len(cob) + W <= MaxOb
    /\ c' = r.post /\ cob' = cob \o Octets(r.emit[1])
    /\ call' = [op |-> "cunbind", k |-> "unbind", id |-> 0]
    /\ UNCHANGED <<s, sob, c2s, s2c, cib, sib, kindOf>>

Matching(k, i) ==   \* responses of the matching kind; a notice of disconnection may answer anything
    \/ k = "notice"
    \/ (kindOf[i] = "bindReq" /\ k \in {"bindRespOk", "bindRespProg"})
    \/ (kindOf[i] = "searchReq" /\ k \in {"entry", "ref", "done"})
    \/ (kindOf[i] = "extReq" /\ k = "extResp")

ServerCall(k, i) ==
    LET r == SSend(s, k, i) IN
    /\ r.res = "ok" /\ Matching(k, i) /\ Len(sob) + W <= MaxOb
    /\ s' = r.post /\ sob' = sob \o Octets(r.emit[1])
    /\ call' = [op |-> "scall", k |-> k, id |-> i]
    /\ UNCHANGED <<c, cob, c2s, s2c, cib, sib, kindOf>>

\* ---- transport steps ---------------------------------------------------------------------
DrainC(k) == /\ k \in 1..Len(cob) /\ Len(c2s) + k <= MaxPipe
             /\ c2s' = c2s \o SubSeq(cob, 1, k) /\ cob' = SubSeq(cob, k + 1, Len(cob))
             /\ call' = [op |-> "cdrain", k |-> "", id |-> k]
             /\ UNCHANGED <<c, s, sob, s2c, cib, sib, kindOf>>
DrainS(k) == /\ k \in 1..Len(sob) /\ Len(s2c) + k <= MaxPipe
             /\ s2c' = s2c \o SubSeq(sob, 1, k) /\ sob' = SubSeq(sob, k + 1, Len(sob))
             /\ call' = [op |-> "sdrain", k |-> "", id |-> k]
             /\ UNCHANGED <<c, s, cob, c2s, cib, sib, kindOf>>

DeliverS(n) == \* n octets of c2s reach the server (n = 0: an empty chunk)
    LET r == RecvBuf("server", s, sib, SubSeq(c2s, 1, n)) IN
    /\ n \in 0..Len(c2s) /\ s.st # "CLOSED"
    /\ s' = r.post /\ sib' = r.ib /\ c2s' = SubSeq(c2s, n + 1, Len(c2s))
    /\ call' = [op |-> "sdeliver", k |-> r.err, id |-> n, msgs |-> r.msgs]
    /\ UNCHANGED <<c, cob, sob, s2c, cib, kindOf>>
DeliverC(n) ==
    LET r == RecvBuf("client", c, cib, SubSeq(s2c, 1, n)) IN
    /\ n \in 0..Len(s2c) /\ c.st # "CLOSED"
    /\ c' = r.post /\ cib' = r.ib /\ s2c' = SubSeq(s2c, n + 1, Len(s2c))
    /\ call' = [op |-> "cdeliver", k |-> r.err, id |-> n, msgs |-> r.msgs]
    /\ UNCHANGED <<s, cob, sob, c2s, sib, kindOf>>

\* bytes in flight to a CLOSED endpoint are lost with the connection
DropToS == /\ s.st = "CLOSED" /\ c2s # <<>> /\ c2s' = <<>>
           /\ call' = [op |-> "sdrop", k |-> "", id |-> 0] /\ UNCHANGED <<c, s, cob, sob, s2c, cib, sib, kindOf>>
DropToC == /\ c.st = "CLOSED" /\ s2c # <<>> /\ s2c' = <<>>
           /\ call' = [op |-> "cdrop", k |-> "", id |-> 0] /\ UNCHANGED <<c, s, cob, sob, c2s, cib, sib, kindOf>>

Next == \/ \E k \in ReqKinds : ClientCall(k)
        \/ ClientUnbind
        \/ \E k \in RespKinds, i \in Ids : ServerCall(k, i)
        \/ \E k \in 1..MaxOb : DrainC(k) \/ DrainS(k)
        \/ \E n \in 0..MaxPipe : DeliverS(n) \/ DeliverC(n)
        \/ DropToS \/ DropToC
Spec == Init /\ [][Next]_vars

View == <<c, s, cob, sob, c2s, s2c, cib, sib, kindOf>>

\* ---- properties ---------------------------------------------------------------------------
\* C11: no protocol error other than the designed terminations (unbind, notice of disconnection)
NoSpuriousError == [][call'.op \in {"sdeliver", "cdeliver"} => call'.k \in {"none", "term"}]_vars
\* C02 / C06 / C11: one delivery hop loses, duplicates, reorders nothing
HopConservationS == [][(call'.op = "sdeliver" /\ call'.k = "none") =>
                           Flatten(call'.msgs, 1) \o sib' = sib \o SubSeq(c2s, 1, call'.id)]_vars
HopConservationC == [][(call'.op = "cdeliver" /\ call'.k = "none") =>
                           Flatten(call'.msgs, 1) \o cib' = cib \o SubSeq(s2c, 1, call'.id)]_vars
\* C06: bytes are only held back while the outermost unit is incomplete
NoHeldBackUnit == Len(cib) < W /\ Len(sib) < W
\* C12: draining moves a prefix and changes nothing else
DrainConservation == [][(call'.op = "cdrain" => c2s' \o cob' = c2s \o cob /\ c' = c)
                         /\ (call'.op = "sdrain" => s2c' \o sob' = s2c \o sob /\ s' = s)]_vars

\* C11: whenever all bytes have been delivered both sides agree (BEFORE_OPEN and OPENED alike)
Quiescent == cob = <<>> /\ sob = <<>> /\ c2s = <<>> /\ s2c = <<>>
Agreement == Quiescent =>
                /\ (c.st # "CLOSED" => cib = <<>>) /\ (s.st # "CLOSED" => sib = <<>>)
                /\ Opened(c.st) = Opened(s.st)
                /\ c.out = s.out
                /\ c.srch = s.srch
\* the streams in flight always consist of whole messages in issue order (sanity of the model)
StreamsWellFormed == /\ (s.st # "CLOSED" => Len(sib \o c2s \o cob) % W = 0)
                     /\ (c.st # "CLOSED" => Len(cib \o s2c \o sob) % W = 0)

\* C02: chunking confluence - cutting what is in a pipe at any position gives the same result as one delivery
Confluent(role, x, ib, pipe) ==
    LET whole == RecvBuf(role, x, ib, pipe) IN
    whole.res = "ok" =>
        \A n \in 0..Len(pipe) :
            LET r1 == RecvBuf(role, x, ib, SubSeq(pipe, 1, n))
                r2 == RecvBuf(role, r1.post, r1.ib, SubSeq(pipe, n + 1, Len(pipe)))
            IN  /\ r1.res = "ok" /\ r2.res = "ok"
                /\ r2.post = whole.post /\ r2.ib = whole.ib
                /\ r1.msgs \o r2.msgs = whole.msgs
ChunkingConfluence == /\ (s.st # "CLOSED" => Confluent("server", s, sib, c2s))
                      /\ (c.st # "CLOSED" => Confluent("client", c, cib, s2c))
=============================================================================
