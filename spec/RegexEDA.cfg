SPECIFICATION Spec
VIEW View
CHECK_DEADLOCK FALSE
INVARIANT NoEDA
