----------------------------- MODULE DrainEmit -----------------------------
EXTENDS Drain, Json
Emit == PrintT(<<"EDGE", ToJson([src |-> [n |-> n, pend |-> Len(obuf), nref |-> nref],
                                 call |-> [op |-> call'.op, k |-> call'.k, take |-> Len(call'.ret)],
                                 dst |-> [n |-> n', pend |-> Len(obuf'), nref |-> nref']])>>)
=============================================================================
