---------------------------- MODULE SchemaTrace ----------------------------
(***************************************************************************)
(* Trace validation of the schema description classes against the RFC 4512 *)
(* reference parser (C16, C17).                                            *)
(*                                                                         *)
(*  str    type, def (what the driver built), text (str(def) as code       *)
(*         points), backres, back (from_string(text) projected)            *)
(*  parse  type, text, res ("ok" / "ValueError" / other class), def        *)
(***************************************************************************)
EXTENDS Schema4512, Json, IOUtils

Log == ndJsonDeserialize(IOEnv.TRACE_FILE)
VARIABLE i
vars == <<i>>
Verdict(prop, clause) == PrintT(<<"VERDICT", i, prop, clause>>)
Check(cond, prop, clause) == IF cond THEN TRUE ELSE Verdict(prop, clause)

Str(e) ==
    \E p \in {Parse(e.type, e.text)} :   \* bound once (a LET in an action is re-evaluated at every reference)
    /\ Check(p.ok, "C16", "TextIsRfc4512")
    /\ (p.ok => Check(p.def = e.def, "C16", "TextDenotesDefinition"))
    /\ Check(e.backres = "ok", "C16", "ParsesBack")
    /\ (e.backres = "ok" => Check(e.back = e.def, "C16", "RoundTrip"))

Parse_(e) ==
    \E p \in {Parse(e.type, e.text)} :   \* bound once (a LET in an action is re-evaluated at every reference)
    /\ Check(e.res \in {"ok", "ValueError"}, "C17", "Total")
    /\ (p.ok => /\ Check(e.res = "ok", "C17", "SentenceRejected")
                /\ (e.res = "ok" => Check(e.def = p.def, "C17", "FieldsAsGrammarDenotes")))

Step(e) == CASE e.op = "str" -> Str(e) [] e.op = "parse" -> Parse_(e)
Init == i = 1
Next == i <= Len(Log) /\ Step(Log[i]) /\ i' = i + 1
Spec == Init /\ [][Next]_vars
AllConsumed == TLCGet("stats").diameter - 1 = Len(Log)
=============================================================================
