CONSTANTS
  W = 2
  MaxId = 2
  MaxPipe = 4
  MaxOb = 4
SPECIFICATION Spec
VIEW View
CHECK_DEADLOCK FALSE
INVARIANT NoHeldBackUnit
INVARIANT Agreement
INVARIANT StreamsWellFormed
INVARIANT ChunkingConfluence
PROPERTY NoSpuriousError
PROPERTY HopConservationS
PROPERTY HopConservationC
PROPERTY DrainConservation
