---------------------------- MODULE FilterTrace ----------------------------
(***************************************************************************)
(* Trace validation of LDAPFilter.__str__ / LDAPFilter.from_string against *)
(* the RFC 4515 reference parser (C13, C14, C15).                          *)
(*                                                                         *)
(*  str    tree (what the driver built), text (str(filter) as UTF-8),      *)
(*         backres, back (from_string(text) projected)                     *)
(*  parse  text, res ("ok" / "FilterSyntaxError" / other class), tree,     *)
(*         off, len, nchars, againres, again (from_string(str(result)))    *)
(***************************************************************************)
EXTENDS Filter4515, Json, IOUtils

Log == ndJsonDeserialize(IOEnv.TRACE_FILE)
VARIABLE i
vars == <<i>>
Verdict(prop, clause) == PrintT(<<"VERDICT", i, prop, clause>>)
Check(cond, prop, clause) == IF cond THEN TRUE ELSE Verdict(prop, clause)

RECURSIVE HasEmptyAny(_), AnyEmptyAny(_, _)
HasEmptyAny(f) ==
    CASE f.k \in {"and", "or"} -> AnyEmptyAny(f.fs, 1)
      [] f.k = "not" -> HasEmptyAny(f.f)
      [] f.k = "sub" -> \E j \in 1..Len(f.any) : f.any[j] = <<>>
      [] OTHER -> FALSE
AnyEmptyAny(fs, j) == j <= Len(fs) /\ (HasEmptyAny(fs[j]) \/ AnyEmptyAny(fs, j + 1))

Str(e) ==
    \E p \in {ParseStrict(e.text)} :   \* bound once (a LET in an action is re-evaluated at every reference)
    /\ Check(p.ok, "C13", "TextIsRfc4515")
    /\ (p.ok => Check(p.tree = e.tree, "C13", "TextDenotesTree"))
    /\ Check(e.backres = "ok", "C13", "ParsesBack")
    /\ (e.backres = "ok" => Check(e.back = e.tree, "C13", "RoundTrip"))

Max2(a, b) == IF a > b THEN a ELSE b
Parse_(e) ==
    \E p \in {IF e.deep THEN [ok |-> FALSE] ELSE ParseDecorated(e.text)} :
    /\ Check(e.res \in {"ok", "FilterSyntaxError"}, "C15", "Total")
    /\ (e.res = "FilterSyntaxError" =>
          Check(e.off >= 0 /\ e.len >= 0 /\ e.off + e.len <= Max2(e.nchars, e.nbytes), "C15", "ErrorSpan"))
    /\ ((e.res = "ok" /\ e.deep) => Check(e.againres = "ok", "C15", "Idempotent"))
    /\ ((e.res = "ok" /\ ~e.deep) =>
          /\ LET g == NamesGrade(e.tree) IN
             IF g = 0 THEN TRUE ELSE IF g = 1 THEN Verdict("C15", "SingleArcOrRuleOptions") ELSE Verdict("C15", "ValidNames")
          /\ Check(e.againres = "ok" /\ e.again = e.tree, "C15", "Idempotent"))
    /\ ((~e.deep /\ p.ok /\ ~p.amb) =>
          IF e.res = "ok" THEN Check(e.tree = p.tree, "C14", "TreeAsGrammarDenotes")
          ELSE IF HasEmptyAny(p.tree) THEN Verdict("C14", "EmptyAnyRejected")
          ELSE Verdict("C14", "SentenceRejected"))

Step(e) == CASE e.op = "str" -> Str(e) [] e.op = "parse" -> Parse_(e)
Init == i = 1
Next == i <= Len(Log) /\ Step(Log[i]) /\ i' = i + 1
Spec == Init /\ [][Next]_vars
AllConsumed == TLCGet("stats").diameter - 1 = Len(Log)
=============================================================================
