CONSTANTS
  N = 4
  MaxPage = 3
  MaxReq = 5
SPECIFICATION Spec
VIEW View
CHECK_DEADLOCK FALSE
INVARIANT TypeOK
INVARIANT ExactlyOnceInOrder
INVARIANT DoneIsComplete
INVARIANT OneDoneLast
INVARIANT CookieHonoured
INVARIANT FlightIsNewest
INVARIANT PageBound
PROPERTY IdsGrow
PROPERTY GotGrows
PROPERTY Answered
