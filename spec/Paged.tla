------------------------------- MODULE Paged -------------------------------
(* Simple paged results (RFC 2696) as an application-level protocol carried by a client and a server session.
   Section 10 of DESIGN.md lists it as growth beyond the listed properties; it is decided together with C11 because a
   paged search is a history of several search operations whose controls must arrive as equal values on the other side
   (C11: "every message sent is received exactly once, in order, as an equal value") and whose message ids must keep
   growing and retire one by one (C09).

   One action per step of the real code:
     CPage(k)   client.search_request(controls = [PagedResultControl(size = k, cookie = cur)])   -> request in flight
     SEntry     server.search_result_entry for the next element of the page                     -> one entry in flight
     SDone      server.search_result_done(controls = [PagedResultControl(size = 0, cookie = c')]) -> page closed
     CRecv      client.receive of whatever is in flight (entries and / or the done message)
     CAbandon   client.search_request(size = 0, cookie = cur): RFC 2696 section 3 "abandon the sequence"
   The server keeps its cursors in a table indexed by the cookie it handed out; a cookie is valid for one use only.
   The cookie is an opaque value for the client: it must come back to the server octet for octet. *)
EXTENDS Naturals, Sequences, FiniteSets

CONSTANTS N,          \* size of the result set (entries 1..N)
          MaxPage,    \* page sizes 1..MaxPage
          MaxReq      \* bound on the number of search requests (state constraint by construction)

VARIABLES cphase,     \* "idle" | "waiting" | "done" | "abandoned"
          cur,        \* cookie the client holds: 0 = empty (start), otherwise a cookie number handed out by the server
          got,        \* sequence of entries the client application has received
          nextId,     \* next message id of the client session
          req,        \* request in flight / being served: [id, size, cookie] or NoReq
          sent,       \* entries the server has sent for the current page
          flight,     \* responses in flight to the client: sequence of [k |-> "entry", id, e] / [k |-> "done", id, cookie]
          table,      \* server: cookie number -> position reached (function on the cookies that are still valid)
          nextCookie, \* server: next cookie number to hand out
          call        \* label of the last step (kept out of the fingerprint by VIEW)

vars == <<cphase, cur, got, nextId, req, sent, flight, table, nextCookie, call>>
View == <<cphase, cur, got, nextId, req, sent, flight, table, nextCookie>>
NoReq == [id |-> 0, size |-> 0, cookie |-> 0]

Init == /\ cphase = "idle" /\ cur = 0 /\ got = <<>> /\ nextId = 1 /\ req = NoReq /\ sent = 0
        /\ flight = <<>> /\ table = <<>> /\ nextCookie = 1
        /\ call = [op |-> "init"]

Pos(c) == IF c = 0 THEN 0 ELSE table[c]
Valid(c) == c = 0 \/ (c \in DOMAIN table /\ table[c] # N + 1)      \* N + 1 marks a used / abandoned cookie

CPage(k) ==
    /\ cphase = "idle" /\ nextId <= MaxReq
    /\ req' = [id |-> nextId, size |-> k, cookie |-> cur]
    /\ nextId' = nextId + 1 /\ cphase' = "waiting" /\ sent' = 0
    /\ call' = [op |-> "cpage", id |-> nextId, size |-> k, cookie |-> cur]
    /\ UNCHANGED <<cur, got, flight, table, nextCookie>>

CAbandon ==
    /\ cphase = "idle" /\ cur # 0 /\ nextId <= MaxReq
    /\ req' = [id |-> nextId, size |-> 0, cookie |-> cur]
    /\ nextId' = nextId + 1 /\ cphase' = "waiting" /\ sent' = 0
    /\ call' = [op |-> "cabandon", id |-> nextId, size |-> 0, cookie |-> cur]
    /\ UNCHANGED <<cur, got, flight, table, nextCookie>>

\* the server serves the request it has received: next entry of the page
SEntry ==
    /\ req # NoReq /\ req.size > 0 /\ Valid(req.cookie)
    /\ sent < req.size /\ Pos(req.cookie) + sent < N
    /\ LET e == Pos(req.cookie) + sent + 1 IN
         /\ flight' = Append(flight, [k |-> "entry", id |-> req.id, e |-> e, cookie |-> 0])
         /\ call' = [op |-> "sentry", id |-> req.id, e |-> e]
    /\ sent' = sent + 1
    /\ UNCHANGED <<cphase, cur, got, nextId, req, table, nextCookie>>

Retire(c) == IF c = 0 THEN table ELSE [table EXCEPT ![c] = N + 1]

\* the page is complete (size reached or result set exhausted) or the sequence is abandoned: done + cookie
SDone ==
    /\ req # NoReq /\ Valid(req.cookie)
    /\ \/ req.size = 0
       \/ sent = req.size
       \/ Pos(req.cookie) + sent = N
    /\ LET newpos == Pos(req.cookie) + sent
           more == req.size > 0 /\ newpos < N
           ck == IF more THEN nextCookie ELSE 0
       IN /\ table' = IF more THEN Append(Retire(req.cookie), newpos) ELSE Retire(req.cookie)
          /\ nextCookie' = IF more THEN nextCookie + 1 ELSE nextCookie
          /\ flight' = Append(flight, [k |-> "done", id |-> req.id, e |-> 0, cookie |-> ck])
          /\ call' = [op |-> "sdone", id |-> req.id, cookie |-> ck, abandon |-> (req.size = 0)]
    /\ req' = NoReq /\ sent' = 0
    /\ UNCHANGED <<cphase, cur, got, nextId>>

\* the client receives a non-empty prefix of what is in flight
CRecv(n) ==
    /\ n \in 1..Len(flight)
    /\ LET pre == SubSeq(flight, 1, n)
           ents == SelectSeq(pre, LAMBDA m : m.k = "entry")
           dn == SelectSeq(pre, LAMBDA m : m.k = "done")
       IN /\ got' = got \o [i \in 1..Len(ents) |-> ents[i].e]
          /\ IF dn # <<>>
               THEN /\ cur' = dn[1].cookie
                    /\ cphase' = IF dn[1].cookie # 0 THEN "idle"
                                 ELSE IF Len(got') = N THEN "done" ELSE "abandoned"
               ELSE UNCHANGED <<cur, cphase>>
          /\ call' = [op |-> "crecv", n |-> n]
    /\ flight' = SubSeq(flight, n + 1, Len(flight))
    /\ UNCHANGED <<nextId, req, sent, table, nextCookie>>

Next == \/ \E k \in 1..MaxPage : CPage(k)
        \/ CAbandon
        \/ SEntry
        \/ SDone
        \/ \E n \in 1..(MaxPage + 1) : CRecv(n)

Spec == Init /\ [][Next]_vars /\ WF_vars(SEntry) /\ WF_vars(SDone) /\ WF_vars(\E n \in 1..(MaxPage + 1) : CRecv(n))

(* ---- properties ---- *)
TypeOK == /\ cphase \in {"idle", "waiting", "done", "abandoned"}
          /\ cur \in 0..MaxReq /\ nextId \in 1..(MaxReq + 1) /\ sent \in 0..MaxPage
          /\ Len(flight) <= MaxPage + 1

\* every entry exactly once, in order: what the application has is always a prefix of the result set
ExactlyOnceInOrder == got = [i \in 1..Len(got) |-> i]
\* a finished sequence delivered everything; an abandoned one never claims completion
DoneIsComplete == cphase = "done" => Len(got) = N /\ cur = 0
\* at most one done message in flight, and it is last (a page is closed once)
OneDoneLast == \A i \in 1..Len(flight) : flight[i].k = "done" => i = Len(flight)
\* the cookie the client holds while idle is one the server still honours (one-use cookies never come back)
CookieHonoured == cphase = "idle" /\ flight = <<>> => Valid(cur)
\* every response in flight belongs to the newest request (ids retire one by one)
FlightIsNewest == \A i \in 1..Len(flight) : flight[i].id = nextId - 1
\* a request is never served with entries beyond the page size
PageBound == sent <= (IF req = NoReq THEN 0 ELSE req.size)
\* ids are handed out in increasing order
IdsGrow == [][nextId' >= nextId]_vars
\* what has been received is never taken back
GotGrows == [][Len(got') >= Len(got) /\ SubSeq(got', 1, Len(got)) = got]_vars
\* a request that has been issued is answered (fair server and deliveries)
Answered == (cphase = "waiting") ~> (cphase # "waiting")
=============================================================================
