------------------------------ MODULE SchemaGen ------------------------------
(***************************************************************************)
(* Generator of RFC 4512 schema descriptions: every derivation of the      *)
(* three grammars of Schema4512.tla up to the bounds of the configuration  *)
(* (presence of every optional clause, list lengths and list forms,        *)
(* string contents with quotes / backslashes / arbitrary Unicode, escape   *)
(* case, amount of spacing at every WSP / SP position, extensions), as a   *)
(* deterministic function of a choice sequence.  Each complete derivation  *)
(* is emitted as [type, def, text].  TLC checks the reference parser on    *)
(* its own sentences: Parse(type, text) = def.                             *)
(***************************************************************************)
EXTENDS Schema4512, Json

CONSTANTS Type,        \* "oc" / "at" / "dcr"
          NStr,        \* entries of StrPool used for DESC and extension values
          NOid,        \* entries of OidPool used
          MaxList,     \* names / oid lists have 0..MaxList entries (0 = clause absent)
          MaxExt,      \* 0..MaxExt extensions, each with 0..MaxExtVals values (0: the empty list "( )")
          MaxExtVals,
          Spacing,     \* 0: exactly the canonical spacing; n: 0..n spaces at WSP, 1..n+1 at SP
          MaxWeight,   \* at most this many non-zero choices: the all-zero derivation is the minimal definition, weight k = k deviations from it
          Quoted,      \* TRUE: also derive the quoted SYNTAX variant of Active Directory
          MaxChoices

NumPool == << <<49, 46, 50>>, <<48, 46, 57, 46, 50, 51, 52, 50, 46, 49, 57, 50, 48, 48, 51, 48, 48, 46, 49, 48, 48, 46, 49, 46, 49>>, <<50, 46, 53, 46, 54, 46, 54>>, <<49, 46, 48>>,
             <<50, 46, 50, 53, 46, 51, 50, 57, 56, 48, 48, 55, 51, 53, 54, 57, 56, 53, 56, 54, 54, 50, 57, 50, 57, 53, 54, 52, 49, 57, 55, 56, 53, 49, 49, 53, 48, 54, 49, 55, 50, 57, 49, 56>> >>   \* 2.25.<UUID as one 39-digit arc> (X.667)
DescrPool == << <<99, 110>>, <<99, 111, 109, 109, 111, 110, 78, 97, 109, 101>>, <<120, 45, 121>>, <<65, 49, 45>>, <<116, 111, 112>>,
               <<67, 78>>, <<84, 111, 80>> >>      \* CN, ToP: the same descriptors in another letter case
OidPool == << DescrPool[1], NumPool[3], DescrPool[2], NumPool[2], DescrPool[3], DescrPool[4], DescrPool[6], DescrPool[5], DescrPool[7], NumPool[5] >>
StrPool == << <<97>>,                                             \* a
              <<105, 116, 39, 115>>,                              \* it's
              <<67, 58, 92, 50, 55, 45, 115>>,                    \* C:\27-s   (a backslash followed by "27")
              <<92>>,                                             \* \
              <<92, 53, 67>>,                                     \* \5C       (a backslash followed by "5C")
              <<233, 8364, 128512>>,                              \* e-acute, euro sign, U+1F600
              <<97, 124, 98>>,                                    \* a|b
              <<40, 32, 36, 32, 41>>,                             \* ( $ )
              <<39>>,                                             \* '
              <<32, 120, 32>>,                                    \* " x "
              <<92, 92, 39, 39>>,                                 \* \\''
              <<88, 45, 70, 32, 39, 98, 39>>,                     \* X-F 'b'
              <<10, 8232>>,                                       \* newline, U+2028
              <<92, 53, 99, 50, 55>>,                             \* \5c27
              <<97, 32, 98>>,                                     \* "a b"
              <<97, 32, 32, 98>>,                                 \* "a  b"   (differs from the previous one only in the number of spaces)
              <<97, 32, 32, 32, 98>>,                             \* "a   b"
              <<97, 10, 32, 98>>,                                 \* "a" LF SPACE "b"    (what an LDIF unfolder would remove)
              <<97, 13, 10, 32, 98>>,                             \* "a" CR LF SPACE "b"
              <<97, 9, 98>>,                                      \* "a" TAB "b"
              <<115, 101, 101, 32, 88, 45, 98, 32>> >>            \* "see X-b "   (a space followed by X- inside a value)
\* the name after the "X-" prefix; the second one itself begins with "X-" (the sentence reads X-X-FOO)
XNamePool == << <<79, 82, 73, 71, 73, 78>>, <<88, 45, 70, 79, 79>>, <<65, 66, 67, 95, 68, 69, 70, 45, 71, 72, 73>>, <<45>>, <<97>> >>
LenPool == << <<48>>, <<49>>, <<54, 52>>, <<50, 49, 52, 55, 52, 56, 51, 54, 52, 55>>, <<52, 50, 57, 52, 57, 54, 55, 50, 57, 54>> >>

Need(n) == [need |-> n]
HasNeed(r) == "need" \in DOMAIN r
Spaces(n) == [j \in 1..n |-> SPACE]

\* spacing: WSP -> 0..Spacing spaces (canonical: what the RFC examples use, given by the caller), SP -> 1..Spacing+1
WspAt(ch, i, canon) == IF Spacing = 0 THEN [s |-> Spaces(canon), i |-> i] ELSE IF i > Len(ch) THEN Need(Spacing + 1) ELSE [s |-> Spaces(ch[i]), i |-> i + 1]
SpAt(ch, i) == IF Spacing = 0 THEN [s |-> Spaces(1), i |-> i] ELSE IF i > Len(ch) THEN Need(Spacing + 1) ELSE [s |-> Spaces(ch[i] + 1), i |-> i + 1]

\* quoted string: every ' becomes \27, every \ becomes \5c or \5C (one choice per string)
RECURSIVE Esc(_, _, _)
Esc(v, j, upper) == IF j > Len(v) THEN <<>>
                    ELSE (IF v[j] = SQ THEN <<BSL, 50, 55>> ELSE IF v[j] = BSL THEN <<BSL, 53, IF upper THEN 67 ELSE 99>> ELSE <<v[j]>>) \o Esc(v, j + 1, upper)
HasBsl(v) == \E j \in 1..Len(v) : v[j] = BSL
QString(ch, i) ==   \* [v, s, i]
    IF i > Len(ch) THEN Need(NStr) ELSE
    LET v == StrPool[ch[i] + 1] IN
    IF ~HasBsl(v) THEN [v |-> v, s |-> <<SQ>> \o Esc(v, 1, FALSE) \o <<SQ>>, i |-> i + 1]
    ELSE IF i + 1 > Len(ch) THEN Need(2)
    ELSE [v |-> v, s |-> <<SQ>> \o Esc(v, 1, ch[i + 1] = 1) \o <<SQ>>, i |-> i + 2]

\* a list of n items drawn by Item(ch, i) -> [v, s, i], rendered "x" (n = 1, form 0) or "( x sep x ... )"
RECURSIVE Items(_, _, _, _, _, _, _)
Items(ch, i, left, kind, vs, s, first) ==
    IF left = 0 THEN [vs |-> vs, s |-> s, i |-> i]
    ELSE LET sep == IF first THEN [s |-> <<>>, i |-> i]
                    ELSE IF kind = "oid" THEN (LET a == WspAt(ch, i, 1) IN IF HasNeed(a) THEN a ELSE LET b == WspAt(ch, a.i, 1) IN IF HasNeed(b) THEN b ELSE [s |-> a.s \o <<DOLLAR>> \o b.s, i |-> b.i])
                    ELSE SpAt(ch, i) IN
         IF HasNeed(sep) THEN sep ELSE
         LET it == IF kind = "oid" THEN (IF sep.i > Len(ch) THEN Need(NOid) ELSE [v |-> OidPool[ch[sep.i] + 1], s |-> OidPool[ch[sep.i] + 1], i |-> sep.i + 1])
                   ELSE IF kind = "descr" THEN (IF sep.i > Len(ch) THEN Need(NOid) ELSE [v |-> DescrPool[(ch[sep.i] % Len(DescrPool)) + 1], s |-> <<SQ>> \o DescrPool[(ch[sep.i] % Len(DescrPool)) + 1] \o <<SQ>>, i |-> sep.i + 1])
                   ELSE QString(ch, sep.i) IN
         IF HasNeed(it) THEN it ELSE Items(ch, it.i, left - 1, kind, Append(vs, it.v), s \o sep.s \o it.s, FALSE)
\* n >= 1 items; a single item may be bare or parenthesised; parenthesised lists have WSP inside the parentheses
List(ch, i, n, kind) ==
    \* n = 0: the empty list "( WSP )" (qdstringlist = [ qdstring *( SP qdstring ) ] may be empty)
    IF n = 0 THEN (LET a == WspAt(ch, i, 1) IN IF HasNeed(a) THEN a ELSE [vs |-> <<>>, s |-> <<LPAR>> \o a.s \o <<RPAR>>, i |-> a.i]) ELSE
    IF n = 1 /\ i > Len(ch) THEN Need(2) ELSE
    LET paren == n > 1 \/ ch[i] = 1
        j == IF n = 1 THEN i + 1 ELSE i IN
    IF ~paren THEN LET it == Items(ch, j, 1, kind, <<>>, <<>>, TRUE) IN IF HasNeed(it) THEN it ELSE [vs |-> it.vs, s |-> it.s, i |-> it.i]
    ELSE LET a == WspAt(ch, j, 1) IN IF HasNeed(a) THEN a ELSE
         LET it == Items(ch, a.i, n, kind, <<>>, <<>>, TRUE) IN IF HasNeed(it) THEN it ELSE
         LET b == WspAt(ch, it.i, 1) IN IF HasNeed(b) THEN b ELSE
         [vs |-> it.vs, s |-> <<LPAR>> \o a.s \o it.s \o b.s \o <<RPAR>>, i |-> b.i]

\* "[ SP keyword SP list ]" with 0..MaxList items (0 = absent); -> [vs, s, i]
ListClause(ch, i, kw, kind) ==
    IF i > Len(ch) THEN Need(MaxList + 1) ELSE
    IF ch[i] = 0 THEN [vs |-> <<>>, s |-> <<>>, i |-> i + 1] ELSE
    LET a == SpAt(ch, i + 1) IN IF HasNeed(a) THEN a ELSE
    LET b == SpAt(ch, a.i) IN IF HasNeed(b) THEN b ELSE
    LET l == List(ch, b.i, ch[i], kind) IN IF HasNeed(l) THEN l ELSE
    [vs |-> l.vs, s |-> a.s \o kw \o b.s \o l.s, i |-> l.i]
\* "[ SP keyword ]" -> [has, s, i]
FlagClause(ch, i, kw) ==
    IF i > Len(ch) THEN Need(2) ELSE
    IF ch[i] = 0 THEN [has |-> FALSE, s |-> <<>>, i |-> i + 1] ELSE
    LET a == SpAt(ch, i + 1) IN IF HasNeed(a) THEN a ELSE [has |-> TRUE, s |-> a.s \o kw, i |-> a.i]
\* "[ SP keyword SP oid ]" -> [has, v, s, i]
OidClause(ch, i, kw) ==
    IF i > Len(ch) THEN Need(2) ELSE
    IF ch[i] = 0 THEN [has |-> FALSE, v |-> <<>>, s |-> <<>>, i |-> i + 1] ELSE
    LET a == SpAt(ch, i + 1) IN IF HasNeed(a) THEN a ELSE
    LET b == SpAt(ch, a.i) IN IF HasNeed(b) THEN b ELSE
    IF b.i > Len(ch) THEN Need(NOid) ELSE
    [has |-> TRUE, v |-> OidPool[ch[b.i] + 1], s |-> a.s \o kw \o b.s \o OidPool[ch[b.i] + 1], i |-> b.i + 1]
DescClause(ch, i) ==
    IF i > Len(ch) THEN Need(2) ELSE
    IF ch[i] = 0 THEN [has |-> FALSE, v |-> <<>>, s |-> <<>>, i |-> i + 1] ELSE
    LET a == SpAt(ch, i + 1) IN IF HasNeed(a) THEN a ELSE
    LET b == SpAt(ch, a.i) IN IF HasNeed(b) THEN b ELSE
    LET q == QString(ch, b.i) IN IF HasNeed(q) THEN q ELSE
    [has |-> TRUE, v |-> q.v, s |-> a.s \o kDESC \o b.s \o q.s, i |-> q.i]

RECURSIVE ExtClauses(_, _, _, _, _)
ExtClauses(ch, i, left, vs, s) ==
    IF left = 0 THEN [vs |-> vs, s |-> s, i |-> i] ELSE
    LET a == SpAt(ch, i) IN IF HasNeed(a) THEN a ELSE
    IF a.i + 1 > Len(ch) THEN Need(IF a.i > Len(ch) THEN 2 ELSE MaxExtVals + 1) ELSE
    \* distinct names: the k-th extension uses the k-th name of the pool; "X-" or "x-" by choice
    LET name == XNamePool[Len(vs) + 1]
        pre == IF ch[a.i] = 1 THEN <<120, HYPHEN>> ELSE <<88, HYPHEN>>
        b == SpAt(ch, a.i + 2) IN IF HasNeed(b) THEN b ELSE
    LET l == List(ch, b.i, ch[a.i + 1], "dstring") IN IF HasNeed(l) THEN l ELSE
    ExtClauses(ch, l.i, left - 1, Append(vs, [name |-> name, vals |-> l.vs]), s \o a.s \o pre \o name \o b.s \o l.s)
Exts(ch, i) == IF i > Len(ch) THEN Need(MaxExt + 1) ELSE ExtClauses(ch, i + 1, ch[i], <<>>, <<>>)

Head_(ch) ==   \* "(" WSP numericoid
    LET a == WspAt(ch, 1, 1) IN IF HasNeed(a) THEN a ELSE
    IF a.i > Len(ch) THEN Need(Len(NumPool)) ELSE [v |-> NumPool[ch[a.i] + 1], s |-> <<LPAR>> \o a.s \o NumPool[ch[a.i] + 1], i |-> a.i + 1]
Tail_(ch, i) ==   \* extensions WSP ")"
    LET x == Exts(ch, i) IN IF HasNeed(x) THEN x ELSE
    LET a == WspAt(ch, x.i, 1) IN IF HasNeed(a) THEN a ELSE [vs |-> x.vs, s |-> x.s \o a.s \o <<RPAR>>, i |-> a.i]

BuildOC(ch) ==
    LET h == Head_(ch) IN IF HasNeed(h) THEN h ELSE
    LET na == ListClause(ch, h.i, kNAME, "descr") IN IF HasNeed(na) THEN na ELSE
    LET de == DescClause(ch, na.i) IN IF HasNeed(de) THEN de ELSE
    LET ob == FlagClause(ch, de.i, kOBSOLETE) IN IF HasNeed(ob) THEN ob ELSE
    LET su == ListClause(ch, ob.i, kSUP, "oid") IN IF HasNeed(su) THEN su ELSE
    IF su.i > Len(ch) THEN Need(4) ELSE
    LET kc == ch[su.i]
        ksp == IF kc = 0 THEN [s |-> <<>>, i |-> su.i + 1] ELSE SpAt(ch, su.i + 1) IN IF HasNeed(ksp) THEN ksp ELSE
    LET kw == CASE kc = 0 -> <<>> [] kc = 1 -> kABSTRACT [] kc = 2 -> kSTRUCTURAL [] kc = 3 -> kAUXILIARY
        kind == CASE kc = 0 -> "STRUCTURAL" [] kc = 1 -> "ABSTRACT" [] kc = 2 -> "STRUCTURAL" [] kc = 3 -> "AUXILIARY"
        mu == ListClause(ch, ksp.i, kMUST, "oid") IN IF HasNeed(mu) THEN mu ELSE
    LET ma == ListClause(ch, mu.i, kMAY, "oid") IN IF HasNeed(ma) THEN ma ELSE
    LET tl == Tail_(ch, ma.i) IN IF HasNeed(tl) THEN tl ELSE
    [def |-> [type |-> "oc", oid |-> h.v, names |-> na.vs, hasDesc |-> de.has, desc |-> de.v, obsolete |-> ob.has, sup |-> su.vs, kind |-> kind,
              must |-> mu.vs, may |-> ma.vs, ext |-> tl.vs],
     s |-> h.s \o na.s \o de.s \o ob.s \o su.s \o ksp.s \o kw \o mu.s \o ma.s \o tl.s, i |-> tl.i]

BuildDCR(ch) ==
    LET h == Head_(ch) IN IF HasNeed(h) THEN h ELSE
    LET na == ListClause(ch, h.i, kNAME, "descr") IN IF HasNeed(na) THEN na ELSE
    LET de == DescClause(ch, na.i) IN IF HasNeed(de) THEN de ELSE
    LET ob == FlagClause(ch, de.i, kOBSOLETE) IN IF HasNeed(ob) THEN ob ELSE
    LET au == ListClause(ch, ob.i, kAUX, "oid") IN IF HasNeed(au) THEN au ELSE
    LET mu == ListClause(ch, au.i, kMUST, "oid") IN IF HasNeed(mu) THEN mu ELSE
    LET ma == ListClause(ch, mu.i, kMAY, "oid") IN IF HasNeed(ma) THEN ma ELSE
    LET no == ListClause(ch, ma.i, kNOT, "oid") IN IF HasNeed(no) THEN no ELSE
    LET tl == Tail_(ch, no.i) IN IF HasNeed(tl) THEN tl ELSE
    [def |-> [type |-> "dcr", oid |-> h.v, names |-> na.vs, hasDesc |-> de.has, desc |-> de.v, obsolete |-> ob.has, aux |-> au.vs, must |-> mu.vs,
              may |-> ma.vs, never |-> no.vs, ext |-> tl.vs],
     s |-> h.s \o na.s \o de.s \o ob.s \o au.s \o mu.s \o ma.s \o no.s \o tl.s, i |-> tl.i]

SyntaxClause(ch, i) ==   \* [ SP "SYNTAX" SP noidlen ] -> [has, v, hasLen, len, s, i]
    IF i > Len(ch) THEN Need(IF Quoted THEN 3 ELSE 2) ELSE
    IF ch[i] = 0 THEN [has |-> FALSE, v |-> <<>>, hasLen |-> FALSE, len |-> <<>>, s |-> <<>>, i |-> i + 1] ELSE
    LET a == SpAt(ch, i + 1) IN IF HasNeed(a) THEN a ELSE
    LET b == SpAt(ch, a.i) IN IF HasNeed(b) THEN b ELSE
    IF b.i + 1 > Len(ch) THEN Need(IF b.i > Len(ch) THEN Len(NumPool) ELSE Len(LenPool) + 1) ELSE
    LET oid == NumPool[ch[b.i] + 1]
        hasLen == ch[b.i + 1] > 0
        len == IF hasLen THEN LenPool[ch[b.i + 1]] ELSE <<>>
        body == oid \o (IF hasLen THEN <<LCURLY>> \o len \o <<RCURLY>> ELSE <<>>)
        q == IF ch[i] = 2 THEN <<SQ>> ELSE <<>>
    IN [has |-> TRUE, v |-> oid, hasLen |-> hasLen, len |-> len, s |-> a.s \o kSYNTAX \o b.s \o q \o body \o q, i |-> b.i + 2]

BuildAT(ch) ==
    LET h == Head_(ch) IN IF HasNeed(h) THEN h ELSE
    LET na == ListClause(ch, h.i, kNAME, "descr") IN IF HasNeed(na) THEN na ELSE
    LET de == DescClause(ch, na.i) IN IF HasNeed(de) THEN de ELSE
    LET ob == FlagClause(ch, de.i, kOBSOLETE) IN IF HasNeed(ob) THEN ob ELSE
    LET su == OidClause(ch, ob.i, kSUP) IN IF HasNeed(su) THEN su ELSE
    LET eq == OidClause(ch, su.i, kEQUALITY) IN IF HasNeed(eq) THEN eq ELSE
    LET od == OidClause(ch, eq.i, kORDERING) IN IF HasNeed(od) THEN od ELSE
    LET sb == OidClause(ch, od.i, kSUBSTR) IN IF HasNeed(sb) THEN sb ELSE
    LET sy == SyntaxClause(ch, sb.i) IN IF HasNeed(sy) THEN sy ELSE
    LET sv == FlagClause(ch, sy.i, kSINGLE) IN IF HasNeed(sv) THEN sv ELSE
    LET co == FlagClause(ch, sv.i, kCOLLECTIVE) IN IF HasNeed(co) THEN co ELSE
    LET nu == FlagClause(ch, co.i, kNOUSERMOD) IN IF HasNeed(nu) THEN nu ELSE
    IF nu.i > Len(ch) THEN Need(5) ELSE
    LET uc == ch[nu.i]
        u1 == IF uc = 0 THEN [s |-> <<>>, i |-> nu.i + 1] ELSE SpAt(ch, nu.i + 1) IN IF HasNeed(u1) THEN u1 ELSE
    LET u2 == IF uc = 0 THEN [s |-> <<>>, i |-> u1.i] ELSE SpAt(ch, u1.i) IN IF HasNeed(u2) THEN u2 ELSE
    LET uw == CASE uc = 0 -> <<>> [] uc = 1 -> uUSER [] uc = 2 -> uDIROP [] uc = 3 -> uDISTOP [] uc = 4 -> uDSAOP
        usage == CASE uc \in {0, 1} -> "userApplications" [] uc = 2 -> "directoryOperation" [] uc = 3 -> "distributedOperation" [] uc = 4 -> "dSAOperation"
        tl == Tail_(ch, u2.i) IN IF HasNeed(tl) THEN tl ELSE
    [def |-> [type |-> "at", oid |-> h.v, names |-> na.vs, hasDesc |-> de.has, desc |-> de.v, obsolete |-> ob.has,
              hasSup |-> su.has, sup |-> su.v, hasEq |-> eq.has, eq |-> eq.v, hasOrd |-> od.has, ord |-> od.v, hasSub |-> sb.has, sub |-> sb.v,
              hasSyntax |-> sy.has, syntax |-> sy.v, hasLen |-> sy.hasLen, len |-> sy.len,
              single |-> sv.has, collective |-> co.has, noUserMod |-> nu.has, usage |-> usage, ext |-> tl.vs],
     s |-> h.s \o na.s \o de.s \o ob.s \o su.s \o eq.s \o od.s \o sb.s \o sy.s \o sv.s \o co.s \o nu.s
           \o (IF uc = 0 THEN <<>> ELSE u1.s \o kUSAGE \o u2.s \o uw) \o tl.s, i |-> tl.i]

Build(ch) == CASE Type = "oc" -> BuildOC(ch) [] Type = "at" -> BuildAT(ch) [] Type = "dcr" -> BuildDCR(ch)

RECURSIVE WeightFrom(_, _)
WeightFrom(c, j) == IF j > Len(c) THEN 0 ELSE (IF c[j] # 0 THEN 1 ELSE 0) + WeightFrom(c, j + 1)
Weight(c) == WeightFrom(c, 1)

VARIABLES ch, done
vars == <<ch, done>>
Init == ch = <<>> /\ done = FALSE
Next == /\ ~done
        /\ LET r == Build(ch) IN
           IF HasNeed(r)
           THEN /\ Len(ch) < MaxChoices
                /\ \E x \in 0..(r.need - 1) : (x = 0 \/ Weight(ch) < MaxWeight) /\ ch' = Append(ch, x) /\ done' = FALSE
           ELSE /\ done' = TRUE /\ ch' = ch
                /\ PrintT(<<"CASE", ToJson([type |-> Type, def |-> r.def, text |-> r.s])>>)
Spec == Init /\ [][Next]_vars

ParseOfUnparse == done => LET r == Build(ch) p == Parse(Type, r.s) IN p.ok /\ p.def = r.def
=============================================================================
