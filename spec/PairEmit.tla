----------------------------- MODULE PairEmit -----------------------------
(* Emission of every transition of Pair as JSON for the spec -> code replay. *)
EXTENDS Pair, Json
Abs == [c |-> c, s |-> s, cob |-> Len(cob), sob |-> Len(sob), c2s |-> Len(c2s), s2c |-> Len(s2c), cib |-> Len(cib), sib |-> Len(sib)]
AbsNext == [c |-> c', s |-> s', cob |-> Len(cob'), sob |-> Len(sob'), c2s |-> Len(c2s'), s2c |-> Len(s2c'), cib |-> Len(cib'), sib |-> Len(sib')]
Emit == PrintT(<<"EDGE", ToJson([src |-> Abs, srck |-> View, call |-> call', dst |-> AbsNext, dstk |-> View'])>>)
=============================================================================
