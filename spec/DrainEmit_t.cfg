CONSTANTS
  W = 3
  MaxMsgs = 5
  MaxRefused = 3
SPECIFICATION Spec
VIEW View
CHECK_DEADLOCK FALSE
ACTION_CONSTRAINT Emit
