----------------------------- MODULE Isolation -----------------------------
(***************************************************************************)
(* Two sessions in one process (C19).  Each endpoint is an instance of     *)
(* Session.tla over its own variables; in addition every endpoint has a    *)
(* registry of custom types.  Next interleaves the endpoints' steps in     *)
(* every order.  Checked: every step changes the variables of at most one  *)
(* endpoint (Independence), and the projection of the composition on each  *)
(* endpoint is a behaviour of the single-session specification (S1!Spec,   *)
(* S2!Spec) - so a later edit of the specification cannot silently couple  *)
(* the sessions.  That the *code* has no coupling is shown by the replay   *)
(* (interleaved vs. isolated transcripts, vf/iso.py).                      *)
(*                                                                         *)
(* Registry semantics:                                                     *)
(*   Register(t)   duplicate -> ValueError, registry unchanged             *)
(*   DecodeCustom(t) a unit carrying custom type t arrives:                *)
(*       t registered            -> decoded to the typed object            *)
(*       control, not registered -> generic control, same fields           *)
(*       filter / credential, not registered -> the unit is undecodable:   *)
(*                                  ProtocolError, the session closes      *)
(*   encoding a custom object needs no registration                        *)
(***************************************************************************)
EXTENDS SessionCore, TLC

CONSTANTS Role1, Role2, MaxId, MaxChunk, Types



VARIABLES x1, call1, reg1, rc1, x2, call2, reg2, rc2     \* rc: outcome of the last register call
vars == <<x1, call1, reg1, rc1, x2, call2, reg2, rc2>>

S1 == INSTANCE Session WITH Role <- Role1, x <- x1, call <- call1
S2 == INSTANCE Session WITH Role <- Role2, x <- x2, call <- call2

Init == S1!Init /\ S2!Init /\ reg1 = {} /\ reg2 = {} /\ rc1 = [t |-> "", res |-> ""] /\ rc2 = [t |-> "", res |-> ""]

\* outcome of decoding a unit that carries custom type t with registry reg
DecodeOutcome(reg, t) == IF t \in reg THEN "typed" ELSE IF t = "control" THEN "generic" ELSE "ProtocolError"

Register1(t) == /\ reg1' = reg1 \cup {t}
                /\ rc1' = [t |-> t, res |-> IF t \in reg1 THEN "ValueError" ELSE "ok"]
                /\ UNCHANGED <<x1, call1, x2, call2, reg2, rc2>>
Register2(t) == /\ reg2' = reg2 \cup {t}
                /\ rc2' = [t |-> t, res |-> IF t \in reg2 THEN "ValueError" ELSE "ok"]
                /\ UNCHANGED <<x2, call2, x1, call1, reg1, rc1>>

\* an undecodable custom unit is garbage for the session state machine
Undecodable1(t) == /\ DecodeOutcome(reg1, t) = "ProtocolError"
                   /\ S1!Do([op |-> "recv", ms |-> <<Msg("garbage", 0)>>], Receive(Role1, x1, <<Msg("garbage", 0)>>))
                   /\ UNCHANGED <<reg1, rc1, x2, call2, reg2, rc2>>
Undecodable2(t) == /\ DecodeOutcome(reg2, t) = "ProtocolError"
                   /\ S2!Do([op |-> "recv", ms |-> <<Msg("garbage", 0)>>], Receive(Role2, x2, <<Msg("garbage", 0)>>))
                   /\ UNCHANGED <<reg2, rc2, x1, call1, reg1, rc1>>

Step1 == S1!Next /\ UNCHANGED <<reg1, rc1, x2, call2, reg2, rc2>>
Step2 == S2!Next /\ UNCHANGED <<reg2, rc2, x1, call1, reg1, rc1>>

Next == Step1 \/ Step2 \/ (\E t \in Types : Register1(t) \/ Register2(t) \/ Undecodable1(t) \/ Undecodable2(t))
Spec == Init /\ [][Next]_vars

View == <<x1, reg1, x2, reg2>>

Independence == [][\/ <<x1, call1, reg1, rc1>>' = <<x1, call1, reg1, rc1>>
                   \/ <<x2, call2, reg2, rc2>>' = <<x2, call2, reg2, rc2>>]_vars
RegistryMonotone == [][reg1 \subseteq reg1' /\ reg2 \subseteq reg2']_vars
DuplicateRejected == [][/\ (rc1' # rc1 => ((rc1'.t \in reg1) <=> (rc1'.res = "ValueError" /\ reg1' = reg1)))
                        /\ (rc2' # rc2 => ((rc2'.t \in reg2) <=> (rc2'.res = "ValueError" /\ reg2' = reg2)))]_vars
S1Spec == S1!Spec
S2Spec == S2!Spec
=============================================================================
