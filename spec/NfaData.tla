------------------------------ MODULE NfaData ------------------------------
(* Sample data for RegexEDA.tla: the NFA of  (a|a)*  (exponentially ambiguous).  vf/regex.py generates one such
   module per pattern the library compiles, in its work directory. *)
EXTENDS Naturals, TLC
Anchors == {0, 1, 2}
Classes == 1..2
Out == 0 :> << {<<1, 0>>, <<2, 1>>}, {} >> @@ 1 :> << {<<1, 0>>, <<2, 1>>}, {} >> @@ 2 :> << {<<1, 0>>, <<2, 1>>}, {} >>
=============================================================================
