------------------------------ MODULE Session ------------------------------
(***************************************************************************)
(* One session endpoint (Role = "client" or "server") driven by every      *)
(* possible application call and by an adversarial peer that delivers      *)
(* chunks of up to MaxChunk units of every kind carrying every candidate   *)
(* id (outstanding, completed, never issued, zero) or garbage.             *)
(*                                                                         *)
(* Lifecycle configuration: units are delivered whole and the outgoing     *)
(* buffer is fully drained after each call, so a state is just the         *)
(* protocol state; the label of the last call (needed by the action        *)
(* properties and by the emission of edges for the spec -> code replay) is *)
(* hidden from the fingerprint by VIEW.  Chunked delivery and partial      *)
(* drains are the subject of Pair.tla and Drain.tla.                       *)
(***************************************************************************)
EXTENDS SessionCore, TLC

CONSTANTS Role, MaxId, MaxChunk

Ids == 0..(MaxId + 1)
VARIABLES x, call
vars == <<x, call>>

Init == x = InitState /\ call = [op |-> "init"]

Chunks == UNION {[1..n -> {Msg(k, i) : k \in AllKinds, i \in Ids}] : n \in 0..MaxChunk}
\* garbage carries no id: keep one representative
NormChunk(ms) == \A j \in 1..Len(ms) : ms[j].k = "garbage" => ms[j].id = 0

Do(c, r) == /\ x' = r.post
            /\ call' = c @@ [res |-> r.res, ret |-> r.ret, emit |-> r.emit]

Next ==
    \/ /\ Role = "client" /\ x.ctr <= MaxId
       /\ \E k \in ReqKinds : Do([op |-> "send", k |-> k, id |-> 0], ClientSend(x, k))
    \/ /\ Role = "server"
       /\ \E k \in RespKinds, i \in Ids : Do([op |-> "send", k |-> k, id |-> i], SSend(x, k, i))
    \/ Do([op |-> "unbind"], Unbind(x))
    \/ \E ms \in Chunks : NormChunk(ms) /\ Do([op |-> "recv", ms |-> ms], Receive(Role, x, ms))

Spec == Init /\ [][Next]_vars

ViewX == x

\* ---- properties -----------------------------------------------------------------------
TypeOK == /\ x.st \in {"BEFORE_OPEN", "BINDING", "OPENED", "CLOSED"}
          /\ x.out \subseteq Ids /\ x.srch \subseteq Ids /\ (Role = "client" => x.srch \subseteq x.out) /\ x.ctr \in 1..(MaxId + 1)
          /\ (x.st = "CLOSED" => x.out = {})
          /\ (Role = "client" => x.out \subseteq 1..(x.ctr - 1))

Sends(c) == c.op \in {"send", "unbind"}
\* C08: CLOSED is final - every later operation is rejected, produces no bytes, accepts no data
ClosedIsFinal == [][x.st = "CLOSED" =>
                      /\ x' = x /\ call'.emit = <<>>
                      /\ (Sends(call') => call'.res = "LDAPError")
                      /\ (call'.op = "recv" => call'.res = "ProtocolError")]_vars
\* C08: BINDING is entered only when a bind request is sent (client) or received (server)
BindingEntry == [][(x.st # "BINDING" /\ x'.st = "BINDING") =>
                      \/ (Role = "client" /\ call'.op = "send" /\ call'.k = "bindReq" /\ call'.res = "ok")
                      \/ (Role = "server" /\ call'.op = "recv" /\ \E j \in 1..Len(call'.ms) : call'.ms[j].k = "bindReq")]_vars
\* C08: BINDING is left only by a bind response other than 'SASL bind in progress', or by closing
BindingExit == [][(x.st = "BINDING" /\ x'.st # "BINDING") =>
                      \/ x'.st = "CLOSED"
                      \/ (Role = "server" /\ call'.op = "send" /\ call'.k = "bindRespOk" /\ call'.res = "ok")
                      \/ (Role = "client" /\ call'.op = "recv" /\ \E j \in 1..Len(call'.ms) : call'.ms[j].k = "bindRespOk")]_vars
\* C08: a bind cannot start while other operations are outstanding
NoBindWhileBusy == [][(Role = "client" /\ call'.op = "send" /\ call'.k = "bindReq" /\ call'.res = "ok") => x.out = {}]_vars
\* C08: while BINDING only bind traffic or a termination can be sent
OnlyBindWhileBinding == [][(x.st = "BINDING" /\ call'.emit # <<>>) =>
                              call'.emit[1].k \in {"bindReq", "bindRespOk", "bindRespProg", "unbind", "notice"}]_vars
\* C08: the session opens on first traffic, never without
OpensOnFirstTraffic == [][(x.st = "BEFORE_OPEN" /\ x'.st # "BEFORE_OPEN") =>
                              call'.emit # <<>> \/ (call'.op = "recv" /\ Len(call'.ms) > 0)]_vars
\* C09: ids are positive, strictly increasing, never reused, carried on the wire, unaffected by refused calls
IdsMonotone == [][Role = "client" /\ call'.op = "send" =>
                      IF call'.res = "ok"
                      THEN /\ call'.ret = x.ctr /\ call'.ret >= 1 /\ x'.ctr = x.ctr + 1
                           /\ call'.emit = <<Msg(call'.k, call'.ret)>>
                      ELSE x'.ctr = x.ctr]_vars
\* C09: a single delivered message is accepted iff it is a response for an operation still in progress
AcceptIffInProgress == [][(Role = "client" /\ call'.op = "recv" /\ Len(call'.ms) = 1 /\ x.st # "CLOSED") =>
                            LET m == call'.ms[1] IN
                            (call'.res = "ok") <=> (IsResponse(m) /\ m.k # "notice" /\ m.id \in x.out)]_vars
\* C09: a search stays in progress across entries / references / any non-done response; others complete at once
SearchUntilDone == [][(Role = "client" /\ call'.op = "recv" /\ Len(call'.ms) = 1 /\ call'.res = "ok") =>
                            LET m == call'.ms[1] IN
                            IF m.id \in x.srch /\ m.k # "done" THEN m.id \in x'.out /\ m.id \in x'.srch
                            ELSE m.id \notin x'.out]_vars
\* C09 / C05: any failure of receive closes the session
ErrorCloses == [][(call'.op = "recv" /\ call'.res # "ok") => x'.st = "CLOSED"]_vars
\* C10: a refused call leaves everything as it was
RefusedNoEffect == [][(Sends(call') /\ call'.res # "ok") => /\ call'.res = "LDAPError" /\ call'.emit = <<>> /\ x' = x]_vars
\* C10: a server emits a response only for an outstanding request; a final response retires it
RespondOnlyOpen == [][(Role = "server" /\ call'.op = "send" /\ call'.res = "ok") =>
                          /\ call'.id \in x.out
                          /\ (IsFinal(call'.k) => call'.id \notin x'.out)
                          /\ (~IsFinal(call'.k) => call'.id \in x'.out)]_vars
=============================================================================
