CONSTANTS
  Alphabet = {0, 1, 127, 128, 129, 254, 255}
  MaxLen = 7
  EmitCases = FALSE
SPECIFICATION Spec
CHECK_DEADLOCK FALSE
CONSTRAINT Emit
INVARIANT ValueIsLimb
INVARIANT ContentRoundTrip
INVARIANT ValueRoundTrip
INVARIANT ContentIsMinimal
INVARIANT PaddingIgnored
INVARIANT SmallAgrees
INVARIANT LenRoundTrip
INVARIANT TagRoundTrip
