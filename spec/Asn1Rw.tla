------------------------------- MODULE Asn1Rw -------------------------------
(***************************************************************************)
(* The ASN1Writer / ASN1Reader objects of sansldap.asn1 as a state machine *)
(* (C07: "all nestings of sequences/sets", "a reader never consumes bytes  *)
(* beyond the value it returns").                                          *)
(*                                                                         *)
(* Writer: a stack of open writers.  stack[1] is the root, stack[k] the    *)
(* innermost writer returned by push_sequence / push_set.  Each frame has  *)
(* the tag it will be wrapped in and the octets written into it so far.    *)
(*   WPrim(v)   write_octet_string / write_integer ... : one primitive TLV *)
(*              appended to the innermost frame                            *)
(*   WPush(t)   push_sequence(tag) / push_set(tag): new innermost frame    *)
(*   WPop       leaving the `with` block: the frame's octets are wrapped   *)
(*              in its tag and appended to the parent                      *)
(*   get_data() is only meaningful on the root (a child raises TypeError); *)
(*              it shows the octets of all *closed* children               *)
(* The history `ops` is the test case; every state is emitted with the     *)
(* octets get_data() must return (RootData) and with the forest of TLVs    *)
(* those octets must read back as (what the reader walks).                 *)
(***************************************************************************)
EXTENDS Ber, TLC, Json

CONSTANTS MaxOps, MaxDepth, EmitCases

\* a small alphabet of primitive values and constructed tags (class, number)
Prims == << [cls |-> 0, num |-> 4, val |-> <<>>], [cls |-> 0, num |-> 4, val |-> <<1, 2>>], [cls |-> 2, num |-> 0, val |-> <<255>>],
            [cls |-> 2, num |-> 31, val |-> <<7>>], [cls |-> 0, num |-> 2, val |-> <<0>>] >>
Tags  == << [cls |-> 0, num |-> 16], [cls |-> 0, num |-> 17], [cls |-> 1, num |-> 3], [cls |-> 2, num |-> 0], [cls |-> 3, num |-> 1000] >>

VARIABLES stack, ops
vars == <<stack, ops>>

Frame0 == [cls |-> 0, num |-> 0, data |-> <<>>]
Init == stack = <<Frame0>> /\ ops = <<>>

Top == stack[Len(stack)]
WithTop(f) == [stack EXCEPT ![Len(stack)] = f]

WPrim(j) == /\ Len(ops) < MaxOps
            /\ stack' = WithTop([Top EXCEPT !.data = @ \o TLV(Prims[j].cls, 0, Prims[j].num, Prims[j].val)])
            /\ ops' = Append(ops, [op |-> "prim", j |-> j])
WPush(j) == /\ Len(ops) < MaxOps /\ Len(stack) <= MaxDepth
            /\ stack' = Append(stack, [cls |-> Tags[j].cls, num |-> Tags[j].num, data |-> <<>>])
            /\ ops' = Append(ops, [op |-> "push", j |-> j])
WPop == /\ Len(ops) < MaxOps /\ Len(stack) > 1
        /\ LET child == Top
               parent == stack[Len(stack) - 1]
           IN stack' = Append(SubSeq(stack, 1, Len(stack) - 2), [parent EXCEPT !.data = @ \o TLV(child.cls, 1, child.num, child.data)])
        /\ ops' = Append(ops, [op |-> "pop", j |-> 0])

Next == (\E j \in 1..Len(Prims) : WPrim(j)) \/ (\E j \in 1..Len(Tags) : WPush(j)) \/ WPop
Spec == Init /\ [][Next]_vars

RootData == stack[1].data

\* ---- properties ---------------------------------------------------------------------------------
\* what is visible at the root is always a well-formed forest of complete TLVs (never a partial child)
RootIsForest == ~ForestBad(Forest(RootData, 1, Len(RootData)))
\* reading: the framer accounts for every octet of the root data
ReaderAccounts == LET f == Frame(RootData, 1, 0) IN f.why = "end" /\ f.tail = Len(RootData) + 1
\* an open child's octets are not visible in any ancestor before it is closed
ChildInvisible == [][(\E j \in 1..Len(Tags) : WPush(j)) => stack'[1].data = stack[1].data]_vars

\* ---- emission -------------------------------------------------------------------------------------
RECURSIVE Plain(_), Plains(_, _)
Plain(n) == IF n.cons = 1 THEN [cls |-> n.cls, cons |-> 1, num |-> n.num, kids |-> Plains(n.kids, 1)]
            ELSE [cls |-> n.cls, cons |-> 0, num |-> n.num, val |-> n.val]
Plains(ks, j) == IF j > Len(ks) THEN <<>> ELSE <<Plain(ks[j])>> \o Plains(ks, j + 1)
Emit == (EmitCases /\ ops # <<>>) =>
            PrintT(<<"CASE", ToJson([ops |-> ops, open |-> Len(stack) - 1, root |-> RootData,
                                      forest |-> Plains(Forest(RootData, 1, Len(RootData)), 1)])>>)
=============================================================================
