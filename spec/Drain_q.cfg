CONSTANTS
  W = 3
  MaxMsgs = 3
  MaxRefused = 2
SPECIFICATION Spec
VIEW View
CHECK_DEADLOCK FALSE
INVARIANT Conservation
INVARIANT InOrder
PROPERTY DrainReturnsPrefix
PROPERTY RefusedNoWire
