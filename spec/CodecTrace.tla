---------------------------- MODULE CodecTrace ----------------------------
(***************************************************************************)
(* Trace validation of the message codec (C01, C03): every recorded        *)
(*   value --pack--> octets --unpack--> value' --pack--> octets'           *)
(* of the library is judged against the RFC 4511 reference of LdapMsg.tla. *)
(*                                                                         *)
(* event: [m (abstract value the driver built), packres, packed,           *)
(*         decres, dec (abstract value of what the library decoded), rest, *)
(*         repacked]                                                       *)
(***************************************************************************)
EXTENDS LdapMsg, Json, IOUtils

LenFormMapAll == <<0, 1, 2, 3, 4>>
Log == ndJsonDeserialize(IOEnv.TRACE_FILE)

VARIABLE i
vars == <<i>>

Verdict(prop, clause) == PrintT(<<"VERDICT", i, prop, clause>>)
Check(cond, prop, clause) == IF cond THEN TRUE ELSE Verdict(prop, clause)

\* position of the protocolOp identifier octet of an LDAPMessage, 0 if the envelope cannot be read
OpTagPos(b) ==
    LET h == Header(b, 1) IN
    IF ~h.ok THEN 0 ELSE
    LET h2 == Header(b, h.hl + 1) IN
    IF ~h2.ok THEN 0 ELSE
    LET p == h.hl + 1 + h2.hl + h2.len IN IF p <= Len(b) THEN p ELSE 0
\* the same octets with a constructed [APPLICATION 2] identifier (0x62) replaced by the primitive one (0x42)
FixUnbind(b) == LET p == OpTagPos(b) IN IF p > 0 /\ b[p] = 98 THEN [b EXCEPT ![p] = 66] ELSE b

\* events packed with PackingOptions(string_encoding # "utf-8") carry enc: the RFC 4511 reference (UTF-8 strings) does not
\* apply to their octets, only the round-trip clauses of C01 do
Utf8Wire(e) == ~("enc" \in DOMAIN e) \/ e.enc = "utf-8"

Step(e) ==
    IF e.packres # "ok" THEN Verdict("C01", "PackRaises")
    ELSE
      \E s \in {IF Utf8Wire(e) THEN DecStrict(e.packed) ELSE [ok |-> TRUE, m |-> e.m]} :   \* bound once
      /\ IF s.ok THEN Check(s.m = e.m, "C03", "StrictValue")
         ELSE LET s2 == DecStrict(FixUnbind(e.packed)) IN
              IF s2.ok /\ s2.m = e.m /\ e.m.op = "unbindRequest" THEN Verdict("C03", "UnbindConstructed")
              ELSE Verdict("C03", "StrictDecodes")
      /\ Check(e.decres = "ok", "C01", "Decodes")
      /\ (e.decres = "ok" =>
            /\ Check(e.dec = e.m, "C01", "Equal")
            /\ Check(e.rest = <<>>, "C01", "ConsumesExactly")
            /\ Check(e.repacked = e.packed, "C01", "Reencodes"))

Init == i = 1
Next == i <= Len(Log) /\ Step(Log[i]) /\ i' = i + 1
Spec == Init /\ [][Next]_vars
AllConsumed == TLCGet("stats").diameter - 1 = Len(Log)
=============================================================================
