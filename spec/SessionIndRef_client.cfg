CONSTANTS
  Role = "client"
  MaxId = 3
SPECIFICATION Spec
CONSTRAINT Bound
INVARIANT IndInvHere
INVARIANT ReceiveIsComposition
PROPERTY Refines
PROPERTY ActionInvHere
CHECK_DEADLOCK FALSE
