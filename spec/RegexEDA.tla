------------------------------ MODULE RegexEDA ------------------------------
(***************************************************************************)
(* Search space of a backtracking regular-expression matcher (C18).        *)
(*                                                                         *)
(* The constants describe an epsilon-free multigraph obtained from the     *)
(* Thompson NFA of one pattern the library compiles: Out[q][c] is the set  *)
(* of <<target anchor state, edge id>> reachable from anchor q on an input *)
(* character of class c, one edge per distinct (epsilon path, symbol       *)
(* transition) - so the multiplicity a backtracking matcher sees is kept.  *)
(*                                                                         *)
(* The specification runs two copies of the automaton on the same word     *)
(* from the same pivot state and remembers whether they ever took          *)
(* different edges.  NoEDA is violated iff some state q has two different  *)
(* paths q -w-> q for one word w: the pattern has exponential degree of    *)
(* ambiguity, a backtracking matcher explores 2^n paths on                 *)
(* prefix w^n failing-suffix.  If NoEDA holds for every pivot, the number  *)
(* of partial paths over any input is polynomially bounded.                *)
(***************************************************************************)
(* The data module NfaData (generated per pattern by vf/regex.py from the patterns the live library compiles) *)
(* defines:  Anchors  set of anchor states (start state and targets of symbol transitions)                    *)
(*           Classes  1..number of character classes (minterms of the pattern's character sets)               *)
(*           Out      Out[q][c] \subseteq Anchors \X EdgeIds                                                  *)
(* They are definitions, not CONSTANTS, so that TLC evaluates the (large) function once.                      *)
EXTENDS Naturals, TLC, NfaData

VARIABLES piv, a, b, div, sym
vars == <<piv, a, b, div, sym>>

Init == piv \in Anchors /\ a = piv /\ b = piv /\ div = FALSE /\ sym = 0
Next == \E c \in Classes : \E x \in Out[a][c], y \in Out[b][c] :
            /\ a' = x[1] /\ b' = y[1]
            /\ div' = (div \/ x[2] # y[2])
            /\ sym' = c
            /\ piv' = piv
Spec == Init /\ [][Next]_vars

\* the last symbol only labels the counter-example; it is not part of the state
View == <<piv, a, b, div>>

NoEDA == ~(div /\ a = piv /\ b = piv)
=============================================================================
