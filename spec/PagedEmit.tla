----------------------------- MODULE PagedEmit -----------------------------
(* Emission of every transition of Paged as JSON for the spec -> code replay (py/vf/paged.py). *)
EXTENDS Paged, Json, TLC
Abs == [cphase |-> cphase, cur |-> cur, got |-> got, nextId |-> nextId, req |-> req, sent |-> sent, flight |-> flight, table |-> table]
AbsNext == [cphase |-> cphase', cur |-> cur', got |-> got', nextId |-> nextId', req |-> req', sent |-> sent', flight |-> flight', table |-> table']
Emit == PrintT(<<"EDGE", ToJson([src |-> Abs, call |-> call', dst |-> AbsNext])>>)
=============================================================================
