--------------------------- MODULE SessionIndRef ---------------------------
(***************************************************************************)
(* Ties SessionInd (the recursion-free restatement that Apalache proves an *)
(* inductive invariant for) to SessionCore (the specification every other  *)
(* session check uses): every step SessionCore can take - a send call, an  *)
(* unbind, a receive call delivering ONE unit - is a step of SessionInd    *)
(* with the same outcome class and the same emitted kind.  Checked by TLC  *)
(* over all states reachable with ids 0..MaxId.  A receive call with       *)
(* several units is ProcessAll, i.e. the composition of such steps         *)
(* (ReceiveIsComposition below checks that on the same state space).       *)
(***************************************************************************)
EXTENDS SessionCore, Integers, TLC

CONSTANTS Role, MaxId

VARIABLES y, res, emitted
vars == <<y, res, emitted>>

I == INSTANCE SessionInd WITH st <- y.st, out <- y.out, srch <- y.srch, ctr <- y.ctr

Ids == 0..MaxId
KindOf(r) == IF r.emit = <<>> THEN "none" ELSE r.emit[1].k

Take(r) == y' = r.post /\ res' = r.res /\ emitted' = KindOf(r)

Init == y = InitState /\ res = "init" /\ emitted = "none"

CoreCSend(kind) == Role = "client" /\ Take(ClientSend(y, kind))
CoreSSend(kind, id) == Role = "server" /\ Take(SSend(y, kind, id))
CoreUnbind == Take(Unbind(y))
CoreRecv(k, id) == Take(Receive(Role, y, <<Msg(k, id)>>))

Next ==
    \/ \E kind \in ReqKinds : CoreCSend(kind)
    \/ \E kind \in RespKinds, id \in Ids : CoreSSend(kind, id)
    \/ CoreUnbind
    \/ \E k \in AllKinds, id \in Ids : CoreRecv(k, id)

Spec == Init /\ [][Next]_vars

Bound == y.ctr <= MaxId + 1

\* every SessionCore step is the SessionInd step of the same name
Refines ==
    [][ \/ \E kind \in ReqKinds : CoreCSend(kind) /\ I!CSend(kind)
        \/ \E kind \in RespKinds, id \in Ids : CoreSSend(kind, id) /\ I!SSend(kind, id)
        \/ CoreUnbind /\ I!Unbind
        \/ \E k \in AllKinds, id \in Ids : CoreRecv(k, id) /\ (IF Role = "client" THEN I!CRecv(k, id) ELSE I!SRecv(k, id)) ]_vars

\* ... and the invariant and action properties proved there hold here (bounded re-check by TLC)
IndInvHere == I!IndInv
ActionInvHere == [][I!ActionInv]_vars

\* a receive call with two units is the composition of two single-unit steps, except that a call containing an
\* undecodable unit anywhere fails as a whole (the close overwrites what earlier units did)
ReceiveIsComposition ==
    \A k1, k2 \in AllKinds, i1, i2 \in Ids :
        LET both == Receive(Role, y, <<Msg(k1, i1), Msg(k2, i2)>>)
            one == Receive(Role, y, <<Msg(k1, i1)>>)
            two == Receive(Role, one.post, <<Msg(k2, i2)>>)
        IN IF one.res = "ok" THEN both.post = two.post /\ both.res = two.res
           ELSE both.post = one.post /\ both.res = one.res
=============================================================================
