CONSTANTS
  N = 4
  MaxPage = 3
  MaxReq = 5
SPECIFICATION Spec
VIEW View
CHECK_DEADLOCK FALSE
ACTION_CONSTRAINT Emit
