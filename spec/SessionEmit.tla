---------------------------- MODULE SessionEmit ----------------------------
(* Emission of every transition of Session as JSON for the spec -> code replay (keeps Session.tla pure). *)
EXTENDS Session, Json
Emit == PrintT(<<"EDGE", ToJson([src |-> x, call |-> call', dst |-> x'])>>)
=============================================================================
