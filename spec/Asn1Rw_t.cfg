CONSTANTS
  MaxOps = 5
  MaxDepth = 3
  EmitCases = TRUE
SPECIFICATION Spec
CHECK_DEADLOCK FALSE
CONSTRAINT Emit
INVARIANT RootIsForest
INVARIANT ReaderAccounts
PROPERTY ChildInvisible
