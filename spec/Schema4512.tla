----------------------------- MODULE Schema4512 -----------------------------
(***************************************************************************)
(* RFC 4512 section 4.1 schema descriptions: a reference parser for        *)
(* ObjectClassDescription, AttributeTypeDescription and                    *)
(* DITContentRuleDescription over sequences of Unicode code points,        *)
(* written from the ABNF of RFC 4512 (sections 1.4, 4.1.1, 4.1.2, 4.1.6)   *)
(* and not from sansldap/schema.py.  Additionally accepted: the quoted     *)
(* SYNTAX 'numericoid[{len}]' that Active Directory emits (documented by   *)
(* the library).                                                           *)
(*                                                                         *)
(* A parsed definition is a record; absent OPTIONAL parts carry a has*     *)
(* flag; kind and usage carry the default the RFC gives them when absent;  *)
(* extensions are a sequence of [name (without the "X-"), vals].           *)
(* len is kept as its digit string (a number may exceed 32 bits).          *)
(***************************************************************************)
EXTENDS Naturals, Sequences, TLC

Bad == [ok |-> FALSE]
SPACE == 32  LPAR == 40  RPAR == 41  SQ == 39  BSL == 92  DOLLAR == 36  LCURLY == 123  RCURLY == 125  DOT == 46  HYPHEN == 45  USCORE == 95

IsAlpha(c) == (c >= 65 /\ c <= 90) \/ (c >= 97 /\ c <= 122)
IsDigit(c) == c >= 48 /\ c <= 57
IsKeychar(c) == IsAlpha(c) \/ IsDigit(c) \/ c = HYPHEN
At(t, p) == IF p >= 1 /\ p <= Len(t) THEN t[p] ELSE 0 - 1

RECURSIVE SkipSpaces(_, _)
SkipSpaces(t, p) == IF At(t, p) = SPACE THEN SkipSpaces(t, p + 1) ELSE p
\* WSP = 0*SPACE: always succeeds; SP = 1*SPACE
Wsp(t, p) == SkipSpaces(t, p)
Sp(t, p) == IF At(t, p) = SPACE THEN [ok |-> TRUE, p |-> SkipSpaces(t, p)] ELSE Bad

\* literal keyword (sequence of code points) at p
RECURSIVE MatchesAt(_, _, _, _)
MatchesAt(t, p, w, j) == j > Len(w) \/ (At(t, p + j - 1) = w[j] /\ MatchesAt(t, p, w, j + 1))
Lit(t, p, w) == IF MatchesAt(t, p, w, 1) THEN [ok |-> TRUE, p |-> p + Len(w)] ELSE Bad

\* ---- number, numericoid, descr, oid ---------------------------------------------------------
RECURSIVE DigitsEnd(_, _)
DigitsEnd(t, p) == IF IsDigit(At(t, p)) THEN DigitsEnd(t, p + 1) ELSE p
Number(t, p) ==    \* number = DIGIT / ( LDIGIT 1*DIGIT )
    LET e == DigitsEnd(t, p) IN
    IF e = p \/ (e - p > 1 /\ t[p] = 48) THEN Bad ELSE [ok |-> TRUE, p |-> e, v |-> SubSeq(t, p, e - 1)]
RECURSIVE MoreArcs(_, _, _)
MoreArcs(t, p, n) ==   \* *( DOT number ), returns end position and number of arcs read
    IF At(t, p) = DOT THEN LET r == Number(t, p + 1) IN IF r.ok THEN MoreArcs(t, r.p, n + 1) ELSE [p |-> p, n |-> n]
    ELSE [p |-> p, n |-> n]
NumericOid(t, p) ==  \* numericoid = number 1*( DOT number )
    LET a == Number(t, p) IN
    IF ~a.ok THEN Bad ELSE
    LET m == MoreArcs(t, a.p, 0) IN
    IF m.n >= 1 THEN [ok |-> TRUE, p |-> m.p, v |-> SubSeq(t, p, m.p - 1)] ELSE Bad
RECURSIVE KeycharsEnd(_, _)
KeycharsEnd(t, p) == IF IsKeychar(At(t, p)) THEN KeycharsEnd(t, p + 1) ELSE p
Descr(t, p) == IF IsAlpha(At(t, p)) THEN LET e == KeycharsEnd(t, p + 1) IN [ok |-> TRUE, p |-> e, v |-> SubSeq(t, p, e - 1)] ELSE Bad
Oid(t, p) == IF IsAlpha(At(t, p)) THEN Descr(t, p) ELSE NumericOid(t, p)

\* ---- quoted things --------------------------------------------------------------------------------
QDescr(t, p) ==
    IF At(t, p) # SQ THEN Bad ELSE
    LET d == Descr(t, p + 1) IN
    IF d.ok /\ At(t, d.p) = SQ THEN [ok |-> TRUE, p |-> d.p + 1, v |-> d.v] ELSE Bad
\* dstring = 1*( QS / QQ / QUTF8 ): returns the unescaped code points
RECURSIVE DString(_, _, _)
DString(t, p, acc) ==
    LET c == At(t, p) IN
    IF c = SQ \/ c < 0 THEN [p |-> p, v |-> acc, ok |-> TRUE]
    ELSE IF c = BSL THEN
        IF At(t, p + 1) = 50 /\ At(t, p + 2) = 55 THEN DString(t, p + 3, Append(acc, SQ))                    \* \27
        ELSE IF At(t, p + 1) = 53 /\ At(t, p + 2) \in {67, 99} THEN DString(t, p + 3, Append(acc, BSL))       \* \5C \5c
        ELSE [ok |-> FALSE]
    ELSE DString(t, p + 1, Append(acc, c))
QDString(t, p) ==
    IF At(t, p) # SQ THEN Bad ELSE
    LET d == DString(t, p + 1, <<>>) IN
    IF d.ok /\ d.v # <<>> /\ At(t, d.p) = SQ THEN [ok |-> TRUE, p |-> d.p + 1, v |-> d.v] ELSE Bad

\* "( WSP [ x *( SP x ) ] WSP )" for x in {qdescr, qdstring}
RECURSIVE QList(_, _, _, _)
QList(t, p, kind, acc) ==     \* p is after WSP; reads items separated by SP, then WSP RPAR
    IF At(t, p) = RPAR THEN [ok |-> TRUE, p |-> p + 1, v |-> acc]
    ELSE LET x == IF kind = "descr" THEN QDescr(t, p) ELSE QDString(t, p) IN
         IF ~x.ok THEN Bad
         ELSE LET q == SkipSpaces(t, x.p) IN
              IF At(t, q) = RPAR THEN [ok |-> TRUE, p |-> q + 1, v |-> Append(acc, x.v)]
              ELSE IF q = x.p THEN Bad            \* the next item needs at least one SPACE
              ELSE QList(t, q, kind, Append(acc, x.v))
QMany(t, p, kind) ==   \* qdescrs / qdstrings
    IF At(t, p) = LPAR THEN QList(t, Wsp(t, p + 1), kind, <<>>)
    ELSE LET x == IF kind = "descr" THEN QDescr(t, p) ELSE QDString(t, p) IN
         IF x.ok THEN [ok |-> TRUE, p |-> x.p, v |-> <<x.v>>] ELSE Bad

\* oids = oid / ( LPAREN WSP oid *( WSP DOLLAR WSP oid ) WSP RPAREN )
RECURSIVE OidList(_, _, _)
OidList(t, p, acc) ==
    LET o == Oid(t, p) IN
    IF ~o.ok THEN Bad ELSE
    LET q == Wsp(t, o.p) IN
    IF At(t, q) = DOLLAR THEN OidList(t, Wsp(t, q + 1), Append(acc, o.v))
    ELSE IF At(t, q) = RPAR THEN [ok |-> TRUE, p |-> q + 1, v |-> Append(acc, o.v)]
    ELSE Bad
Oids(t, p) ==
    IF At(t, p) = LPAR THEN OidList(t, Wsp(t, p + 1), <<>>)
    ELSE LET o == Oid(t, p) IN IF o.ok THEN [ok |-> TRUE, p |-> o.p, v |-> <<o.v>>] ELSE Bad

\* noidlen = numericoid [ LCURLY len RCURLY ]
NoidLen(t, p) ==
    LET o == NumericOid(t, p) IN
    IF ~o.ok THEN Bad
    ELSE IF At(t, o.p) = LCURLY THEN
        LET n == Number(t, o.p + 1) IN
        IF n.ok /\ At(t, n.p) = RCURLY THEN [ok |-> TRUE, p |-> n.p + 1, v |-> o.v, hasLen |-> TRUE, len |-> n.v] ELSE Bad
    ELSE [ok |-> TRUE, p |-> o.p, v |-> o.v, hasLen |-> FALSE, len |-> <<>>]
\* ... or the same between single quotes (Active Directory)
Syntax(t, p) ==
    IF At(t, p) = SQ THEN LET n == NoidLen(t, p + 1) IN IF n.ok /\ At(t, n.p) = SQ THEN [n EXCEPT !.p = @ + 1] ELSE Bad
    ELSE NoidLen(t, p)

\* ---- "[ SP keyword SP value ]" clauses ---------------------------------------------------------------------
W(s) == s    \* keywords are given as code point sequences
kNAME == <<78, 65, 77, 69>>  kDESC == <<68, 69, 83, 67>>  kOBSOLETE == <<79, 66, 83, 79, 76, 69, 84, 69>>  kSUP == <<83, 85, 80>>
kMUST == <<77, 85, 83, 84>>  kMAY == <<77, 65, 89>>  kAUX == <<65, 85, 88>>  kNOT == <<78, 79, 84>>
kABSTRACT == <<65, 66, 83, 84, 82, 65, 67, 84>>  kSTRUCTURAL == <<83, 84, 82, 85, 67, 84, 85, 82, 65, 76>>  kAUXILIARY == <<65, 85, 88, 73, 76, 73, 65, 82, 89>>
kEQUALITY == <<69, 81, 85, 65, 76, 73, 84, 89>>  kORDERING == <<79, 82, 68, 69, 82, 73, 78, 71>>  kSUBSTR == <<83, 85, 66, 83, 84, 82>>  kSYNTAX == <<83, 89, 78, 84, 65, 88>>
kSINGLE == <<83, 73, 78, 71, 76, 69, 45, 86, 65, 76, 85, 69>>  kCOLLECTIVE == <<67, 79, 76, 76, 69, 67, 84, 73, 86, 69>>
kNOUSERMOD == <<78, 79, 45, 85, 83, 69, 82, 45, 77, 79, 68, 73, 70, 73, 67, 65, 84, 73, 79, 78>>  kUSAGE == <<85, 83, 65, 71, 69>>
uUSER == <<117, 115, 101, 114, 65, 112, 112, 108, 105, 99, 97, 116, 105, 111, 110, 115>>
uDIROP == <<100, 105, 114, 101, 99, 116, 111, 114, 121, 79, 112, 101, 114, 97, 116, 105, 111, 110>>
uDISTOP == <<100, 105, 115, 116, 114, 105, 98, 117, 116, 101, 100, 79, 112, 101, 114, 97, 116, 105, 111, 110>>
uDSAOP == <<100, 83, 65, 79, 112, 101, 114, 97, 116, 105, 111, 110>>

\* a keyword must not run into the next token: after it comes SPACE, RPAR or the end
KeywordAt(t, p, w) == MatchesAt(t, p, w, 1) /\ ~IsKeychar(At(t, p + Len(w)))
\* "SP keyword" starting at the SPACEs at p; returns the position after the keyword
SpKeyword(t, p, w) == LET s == Sp(t, p) IN IF s.ok /\ KeywordAt(t, s.p, w) THEN [ok |-> TRUE, p |-> s.p + Len(w)] ELSE Bad
\* flag clause "[ SP keyword ]"
Flag(t, p, w) == LET k == SpKeyword(t, p, w) IN IF k.ok THEN [has |-> TRUE, p |-> k.p] ELSE [has |-> FALSE, p |-> p]
\* valued clause "[ SP keyword SP value ]": kind of value in {"qdescrs", "qdstring", "oids", "oid", "syntax"}
Valued(t, p, w, kind) ==
    LET k == SpKeyword(t, p, w) IN
    IF ~k.ok THEN [ok |-> TRUE, has |-> FALSE, p |-> p, v |-> <<>>, hasLen |-> FALSE, len |-> <<>>] ELSE
    LET s == Sp(t, k.p) IN
    IF ~s.ok THEN Bad ELSE
    LET v == CASE kind = "qdescrs" -> QMany(t, s.p, "descr") [] kind = "qdstring" -> QDString(t, s.p) [] kind = "oids" -> Oids(t, s.p)
               [] kind = "oid" -> Oid(t, s.p) [] kind = "syntax" -> Syntax(t, s.p) IN
    IF ~v.ok THEN Bad
    ELSE [ok |-> TRUE, has |-> TRUE, p |-> v.p, v |-> v.v, hasLen |-> IF kind = "syntax" THEN v.hasLen ELSE FALSE, len |-> IF kind = "syntax" THEN v.len ELSE <<>>]

\* extensions = *( SP xstring SP qdstrings ); xstring = "X" HYPHEN 1*( ALPHA / HYPHEN / USCORE )
IsXChar(c) == IsAlpha(c) \/ c = HYPHEN \/ c = USCORE
RECURSIVE XEnd(_, _)
XEnd(t, p) == IF IsXChar(At(t, p)) THEN XEnd(t, p + 1) ELSE p
RECURSIVE Extensions(_, _, _)
Extensions(t, p, acc) ==
    LET s == Sp(t, p) IN
    IF ~s.ok \/ At(t, s.p) \notin {88, 120} \/ At(t, s.p + 1) # HYPHEN THEN [ok |-> TRUE, p |-> p, v |-> acc]
    ELSE LET e == XEnd(t, s.p + 2) IN
         IF e = s.p + 2 THEN Bad ELSE
         LET s2 == Sp(t, e) IN IF ~s2.ok THEN Bad ELSE
         LET q == QMany(t, s2.p, "dstring") IN IF ~q.ok THEN Bad ELSE
         Extensions(t, q.p, Append(acc, [name |-> SubSeq(t, s.p + 2, e - 1), vals |-> q.v]))

\* "extensions WSP RPAREN" and nothing after
DefTail(t, p) ==
    LET x == Extensions(t, p, <<>>) IN
    IF ~x.ok THEN Bad ELSE
    LET q == Wsp(t, x.p) IN
    IF At(t, q) = RPAR /\ q = Len(t) THEN [ok |-> TRUE, v |-> x.v] ELSE Bad

DefHead(t) ==   \* LPAREN WSP numericoid
    IF At(t, 1) # LPAR THEN Bad ELSE NumericOid(t, Wsp(t, 2))

ParseOC(t) ==
    LET h == DefHead(t) IN IF ~h.ok THEN Bad ELSE
    LET na == Valued(t, h.p, kNAME, "qdescrs") IN IF ~na.ok THEN Bad ELSE
    LET de == Valued(t, na.p, kDESC, "qdstring") IN IF ~de.ok THEN Bad ELSE
    LET ob == Flag(t, de.p, kOBSOLETE)
        su == Valued(t, ob.p, kSUP, "oids") IN IF ~su.ok THEN Bad ELSE
    LET ka == Flag(t, su.p, kABSTRACT)
        ks == IF ka.has THEN ka ELSE Flag(t, su.p, kSTRUCTURAL)
        kx == IF ks.has THEN ks ELSE Flag(t, su.p, kAUXILIARY)
        kind == IF ka.has THEN "ABSTRACT" ELSE IF ks.has THEN "STRUCTURAL" ELSE IF kx.has THEN "AUXILIARY" ELSE "STRUCTURAL"
        mu == Valued(t, kx.p, kMUST, "oids") IN IF ~mu.ok THEN Bad ELSE
    LET ma == Valued(t, mu.p, kMAY, "oids") IN IF ~ma.ok THEN Bad ELSE
    LET tl == DefTail(t, ma.p) IN IF ~tl.ok THEN Bad ELSE
    [ok |-> TRUE, def |-> [type |-> "oc", oid |-> h.v, names |-> na.v, hasDesc |-> de.has, desc |-> de.v, obsolete |-> ob.has, sup |-> su.v,
                           kind |-> kind, must |-> mu.v, may |-> ma.v, ext |-> tl.v]]

ParseAT(t) ==
    LET h == DefHead(t) IN IF ~h.ok THEN Bad ELSE
    LET na == Valued(t, h.p, kNAME, "qdescrs") IN IF ~na.ok THEN Bad ELSE
    LET de == Valued(t, na.p, kDESC, "qdstring") IN IF ~de.ok THEN Bad ELSE
    LET ob == Flag(t, de.p, kOBSOLETE)
        su == Valued(t, ob.p, kSUP, "oid") IN IF ~su.ok THEN Bad ELSE
    LET eq == Valued(t, su.p, kEQUALITY, "oid") IN IF ~eq.ok THEN Bad ELSE
    LET od == Valued(t, eq.p, kORDERING, "oid") IN IF ~od.ok THEN Bad ELSE
    LET sb == Valued(t, od.p, kSUBSTR, "oid") IN IF ~sb.ok THEN Bad ELSE
    LET sy == Valued(t, sb.p, kSYNTAX, "syntax") IN IF ~sy.ok THEN Bad ELSE
    LET sv == Flag(t, sy.p, kSINGLE)
        co == Flag(t, sv.p, kCOLLECTIVE)
        nu == Flag(t, co.p, kNOUSERMOD)
        uk == SpKeyword(t, nu.p, kUSAGE)
        us == IF ~uk.ok THEN [ok |-> TRUE, p |-> nu.p, v |-> "userApplications"]
              ELSE LET s == Sp(t, uk.p) IN
                   IF ~s.ok THEN Bad
                   ELSE IF KeywordAt(t, s.p, uUSER) THEN [ok |-> TRUE, p |-> s.p + Len(uUSER), v |-> "userApplications"]
                   ELSE IF KeywordAt(t, s.p, uDIROP) THEN [ok |-> TRUE, p |-> s.p + Len(uDIROP), v |-> "directoryOperation"]
                   ELSE IF KeywordAt(t, s.p, uDISTOP) THEN [ok |-> TRUE, p |-> s.p + Len(uDISTOP), v |-> "distributedOperation"]
                   ELSE IF KeywordAt(t, s.p, uDSAOP) THEN [ok |-> TRUE, p |-> s.p + Len(uDSAOP), v |-> "dSAOperation"]
                   ELSE Bad
    IN IF ~us.ok THEN Bad ELSE
    LET tl == DefTail(t, us.p) IN IF ~tl.ok THEN Bad ELSE
    [ok |-> TRUE, def |-> [type |-> "at", oid |-> h.v, names |-> na.v, hasDesc |-> de.has, desc |-> de.v, obsolete |-> ob.has,
                           hasSup |-> su.has, sup |-> su.v, hasEq |-> eq.has, eq |-> eq.v, hasOrd |-> od.has, ord |-> od.v, hasSub |-> sb.has, sub |-> sb.v,
                           hasSyntax |-> sy.has, syntax |-> sy.v, hasLen |-> sy.hasLen, len |-> sy.len,
                           single |-> sv.has, collective |-> co.has, noUserMod |-> nu.has, usage |-> us.v, ext |-> tl.v]]

ParseDCR(t) ==
    LET h == DefHead(t) IN IF ~h.ok THEN Bad ELSE
    LET na == Valued(t, h.p, kNAME, "qdescrs") IN IF ~na.ok THEN Bad ELSE
    LET de == Valued(t, na.p, kDESC, "qdstring") IN IF ~de.ok THEN Bad ELSE
    LET ob == Flag(t, de.p, kOBSOLETE)
        au == Valued(t, ob.p, kAUX, "oids") IN IF ~au.ok THEN Bad ELSE
    LET mu == Valued(t, au.p, kMUST, "oids") IN IF ~mu.ok THEN Bad ELSE
    LET ma == Valued(t, mu.p, kMAY, "oids") IN IF ~ma.ok THEN Bad ELSE
    LET no == Valued(t, ma.p, kNOT, "oids") IN IF ~no.ok THEN Bad ELSE
    LET tl == DefTail(t, no.p) IN IF ~tl.ok THEN Bad ELSE
    [ok |-> TRUE, def |-> [type |-> "dcr", oid |-> h.v, names |-> na.v, hasDesc |-> de.has, desc |-> de.v, obsolete |-> ob.has,
                           aux |-> au.v, must |-> mu.v, may |-> ma.v, never |-> no.v, ext |-> tl.v]]

Parse(type, t) == CASE type = "oc" -> ParseOC(t) [] type = "at" -> ParseAT(t) [] type = "dcr" -> ParseDCR(t)
=============================================================================
