----------------------------- MODULE BerTrace -----------------------------
(***************************************************************************)
(* Trace validation of sansldap.asn1 (property C07): every recorded call   *)
(* of an ASN1Writer.write_* / ASN1Reader.read_* / peek_header is judged by *)
(* the arithmetic of Ber.tla.  One event per line of IOEnv.TRACE_FILE.     *)
(*                                                                         *)
(* Events (all octet strings are JSON arrays of 0..255):                   *)
(*  wint  : v (limb), en (BOOLEAN: ENUMERATED), out                        *)
(*  rint  : inp, res ("ok"/exception class), v (limb), rest, en            *)
(*  wbool : b, out            rbool : inp, res, b, rest                    *)
(*  woct  : val, out          roct  : inp, res, val, rest                  *)
(*  whdr  : cls, cons, num (base-128 digits), clen (base-256 digits of the *)
(*          content length), hdr (the octets written before the content)   *)
(*  rhdr  : inp, res, cls, cons, num, hl, len (base-256 digits)            *)
(*  tree  : out (bytes the nested writers produced), shape (the TLV tree   *)
(*          the driver asked for), back (the tree the reader walked back), *)
(*          rest                                                           *)
(* Every action is total: a failing clause prints a VERDICT line and the   *)
(* trace continues.                                                        *)
(***************************************************************************)
EXTENDS Ber, TLC, Json, IOUtils

Log == ndJsonDeserialize(IOEnv.TRACE_FILE)

VARIABLE i
vars == <<i>>

Verdict(clause) == PrintT(<<"VERDICT", i, "C07", clause>>)
Check(cond, clause) == IF cond THEN TRUE ELSE Verdict(clause)

UTag(e) == IF e.en THEN UEnum ELSE UInt

\* the complete TLV at the start of inp, or ~ok
FirstTLV(inp) ==
    LET h == Header(inp, 1) IN
    IF ~h.ok \/ h.hl + h.len > Len(inp) THEN [ok |-> FALSE]
    ELSE [ok |-> TRUE, h |-> h, content |-> SubSeq(inp, h.hl + 1, h.hl + h.len), rest |-> Drop(inp, h.hl + h.len)]

WInt(e) ==
    LET c == IntContent(e.v) IN
    /\ Check(e.out = TLV(0, 0, UTag(e), c), "IntWrite")
    /\ Check(IsMinimalInt(c), "IntWriteMinimal")

RInt(e) ==
    LET f == FirstTLV(e.inp) IN
    IF ~f.ok \/ f.h.cls # 0 \/ f.h.cons # 0 \/ f.h.num # UTag(e) \/ f.h.len = 0
    THEN Check(e.res # "ok", "IntReadRejectsMalformed")
    ELSE /\ Check(e.res = "ok", "IntReadAccepts")
         /\ (e.res = "ok" => /\ Check(e.v = IntValue(f.content), "IntReadValue")
                             /\ Check(e.rest = f.rest, "NoOverRead"))

WBool(e) == Check(e.out = TLV(0, 0, UBool, <<IF e.b THEN 255 ELSE 0>>), "BoolWrite")
RBool(e) ==
    LET f == FirstTLV(e.inp) IN
    IF ~f.ok \/ f.h.cls # 0 \/ f.h.cons # 0 \/ f.h.num # UBool \/ f.h.len # 1
    THEN TRUE     \* outside the property's domain (content of a BOOLEAN is one octet)
    ELSE /\ Check(e.res = "ok", "BoolReadAccepts")
         /\ (e.res = "ok" => /\ Check(e.b = (f.content[1] # 0), "BoolReadValue")
                             /\ Check(e.rest = f.rest, "NoOverRead"))

WOct(e) == Check(e.out = TLV(0, 0, UOctets, e.val), "OctetsWrite")
ROct(e) ==
    LET f == FirstTLV(e.inp) IN
    IF ~f.ok \/ f.h.cls # 0 \/ f.h.cons # 0 \/ f.h.num # UOctets
    THEN Check(e.res # "ok", "OctetsReadRejectsMalformed")
    ELSE /\ Check(e.res = "ok", "OctetsReadAccepts")
         /\ (e.res = "ok" => /\ Check(e.val = f.content, "OctetsReadValue")
                             /\ Check(e.rest = f.rest, "NoOverRead"))

WHdr(e) == Check(e.hdr = IdOctets(e.cls, e.cons, e.num) \o LenOctetsMin(e.clen), "HeaderWrite")

RHdr(e) ==
    LET h == HeaderBig(e.inp, 1) IN
    IF ~h.ok THEN Check(e.res = (IF h.why = "short" THEN "NotEnoughData" ELSE "ValueError"), "HeaderReadRejects")
    ELSE /\ Check(e.res = "ok", "HeaderReadAccepts")
         /\ (e.res = "ok" =>
               Check(/\ e.cls = h.cls /\ e.cons = h.cons /\ e.num = h.num
                     /\ e.hl = h.hl /\ e.len = h.len, "HeaderReadValue"))

\* canonical encoding of a shape tree: node = [cls, cons, num, val] or [cls, cons, num, kids]
RECURSIVE EncShape(_), EncShapes(_, _)
EncShape(n) == TLV(n.cls, n.cons, n.num, IF n.cons = 1 THEN EncShapes(n.kids, 1) ELSE n.val)
EncShapes(ks, j) == IF j > Len(ks) THEN <<>> ELSE EncShape(ks[j]) \o EncShapes(ks, j + 1)
\* forget the bookkeeping fields of a Forest so that it compares with a shape
RECURSIVE Plain(_), Plains(_, _)
Plain(n) == IF n.bad THEN [bad |-> TRUE]
            ELSE IF n.cons = 1 THEN [cls |-> n.cls, cons |-> 1, num |-> n.num, kids |-> Plains(n.kids, 1)]
            ELSE [cls |-> n.cls, cons |-> 0, num |-> n.num, val |-> n.val]
Plains(ks, j) == IF j > Len(ks) THEN <<>> ELSE <<Plain(ks[j])>> \o Plains(ks, j + 1)

Tree(e) ==
    LET bytes == EncShapes(e.shape, 1) IN
    /\ Check(e.out = bytes, "NestedWrite")
    /\ Check(Plains(Forest(bytes, 1, Len(bytes)), 1) = e.shape, "OracleSelfConsistency")
    /\ Check(e.back = e.shape, "NestedRead")
    /\ Check(e.rest = e.trail, "NoOverRead")

Step(e) ==
    CASE e.op = "wint"  -> WInt(e)
      [] e.op = "rint"  -> RInt(e)
      [] e.op = "wbool" -> WBool(e)
      [] e.op = "rbool" -> RBool(e)
      [] e.op = "woct"  -> WOct(e)
      [] e.op = "roct"  -> ROct(e)
      [] e.op = "whdr"  -> WHdr(e)
      [] e.op = "rhdr"  -> RHdr(e)
      [] e.op = "tree"  -> Tree(e)
      [] e.op = "raised" -> Verdict("OperationRaised")   \* a write / nested round trip raised in the driver
      [] OTHER -> Verdict("UnknownEvent")

Init == i = 1
Next == i <= Len(Log) /\ Step(Log[i]) /\ i' = i + 1
Spec == Init /\ [][Next]_vars
AllConsumed == TLCGet("stats").diameter - 1 = Len(Log)
=============================================================================
