------------------------------- MODULE Drain -------------------------------
(***************************************************************************)
(* The outgoing byte stream of one session (C12, and the wire clause of    *)
(* C10): every interleaving of accepted sends, refused sends and drains of *)
(* any amount.  A message is W opaque octets <<n, 1>> .. <<n, W>> where n  *)
(* is the serial number of the accepted send, so every octet of the stream *)
(* is distinguishable and conservation can be stated exactly.              *)
(*                                                                         *)
(*   obuf     octets queued and not yet drained                            *)
(*   sent     ghost: every octet of every accepted send, in call order     *)
(*   drained  ghost: concatenation of everything data_to_send returned     *)
(*   n        number of accepted sends                                     *)
(***************************************************************************)
EXTENDS Naturals, Sequences, TLC

CONSTANTS W, MaxMsgs, MaxRefused
All == 1000000     \* data_to_send(None)

VARIABLES obuf, sent, drained, n, nref, call
vars == <<obuf, sent, drained, n, nref, call>>

Octets(m) == [j \in 1..W |-> <<m, j>>]
Min(a, b) == IF a < b THEN a ELSE b

Init == obuf = <<>> /\ sent = <<>> /\ drained = <<>> /\ n = 0 /\ nref = 0 /\ call = [op |-> "init"]

SendOk == /\ n < MaxMsgs
          /\ n' = n + 1
          /\ obuf' = obuf \o Octets(n + 1)
          /\ sent' = sent \o Octets(n + 1)
          /\ call' = [op |-> "sendOk", k |-> 0, ret |-> <<>>]
          /\ UNCHANGED <<drained, nref>>

\* a refused call has no wire effect, wherever in the call the refusal is decided
SendRefused == /\ nref < MaxRefused
               /\ nref' = nref + 1
               /\ call' = [op |-> "sendRefused", k |-> 0, ret |-> <<>>]
               /\ UNCHANGED <<obuf, sent, drained, n>>

\* data_to_send(k): all, zero, less or more than what is pending
Drain(k) == LET take == IF k = All THEN Len(obuf) ELSE Min(k, Len(obuf)) IN
            /\ drained' = drained \o SubSeq(obuf, 1, take)
            /\ obuf' = SubSeq(obuf, take + 1, Len(obuf))
            /\ call' = [op |-> "drain", k |-> k, ret |-> SubSeq(obuf, 1, take)]
            /\ UNCHANGED <<sent, n, nref>>

Next == SendOk \/ SendRefused \/ (\E k \in 0..(Len(obuf) + 2) : Drain(k)) \/ Drain(All)
Spec == Init /\ [][Next]_vars

\* the abstract state the replay identifies real objects with (the ghosts are functions of it)
View == <<n, Len(obuf), nref>>

\* ---- properties ---------------------------------------------------------------------
\* C12: nothing dropped, repeated or reordered
Conservation == drained \o obuf = sent
\* C12: a drain returns a prefix of what was pending and leaves the rest
DrainReturnsPrefix == [][call'.op = "drain" => call'.ret \o obuf' = obuf]_vars
\* C10: a refused call leaves the outgoing stream exactly as it was
RefusedNoWire == [][call'.op = "sendRefused" => obuf' = obuf]_vars
\* the stream is the messages in call order
InOrder == \A j \in 1..Len(sent) : sent[j] = <<((j - 1) \div W) + 1, ((j - 1) % W) + 1>>
=============================================================================
