CONSTANTS
  W = 3
  MaxMsgs = 3
  MaxRefused = 2
SPECIFICATION Spec
VIEW View
CHECK_DEADLOCK FALSE
ACTION_CONSTRAINT Emit
