---------------------------- MODULE SessionCore ----------------------------
(***************************************************************************)
(* The LDAP session state machine of one endpoint (client or server), as   *)
(* the documentation of sansldap and properties C08-C12 describe it: pure  *)
(* step operators from a state and a call to a post-state and an outcome.  *)
(* Written from the SessionState docstring, the docstrings of LDAPClient / *)
(* LDAPServer and RFC 4511 section 4 - not transcribed from _session.py;   *)
(* where the code deliberately does something the documentation does not   *)
(* say, the operator is named after the deviation.                         *)
(*                                                                         *)
(* Messages are descriptors [k |-> kind, id |-> message id].               *)
(*                                                                         *)
(* State of an endpoint:                                                   *)
(*   st    BEFORE_OPEN / BINDING / OPENED / CLOSED                         *)
(*   out   ids of operations in progress (awaiting a final response)       *)
(*   srch  ids that are searches (client: subset of out; server: a ghost   *)
(*         variable, ids received as searches and not yet answered by done)*)
(*   ctr   next message id a client hands out                              *)
(*                                                                         *)
(* Outcome of a call: [post, res, ret, emit]                               *)
(*   res   "ok" / "LDAPError" (a refused send call) / "ProtocolError"      *)
(*   ret   returned message id (send calls), number of messages (receive)  *)
(*   emit  sequence of descriptors whose octets the call queued            *)
(*                                                                         *)
(* A refused call has no effect whatsoever: post = pre, emit = <<>>.       *)
(***************************************************************************)
EXTENDS Naturals, Sequences, FiniteSets

ReqKinds   == {"bindReq", "searchReq", "extReq"}
RespKinds  == {"bindRespOk", "bindRespProg", "extResp", "notice", "entry", "ref", "done"}
Terminators == {"unbind", "notice"}          \* designed terminations when received
\* "garbage" stands for any unit the decoder rejects; "unbind" is a request kind that is never answered
AllKinds   == ReqKinds \cup RespKinds \cup {"unbind", "garbage"}

Msg(k, i) == [k |-> k, id |-> i]
IsResponse(m) == m.k \in RespKinds
IsRequest(m)  == m.k \in ReqKinds \cup {"unbind"}
\* a final response retires the operation; entries and references do not
IsFinal(k) == k \in RespKinds \ {"entry", "ref"}

InitState == [st |-> "BEFORE_OPEN", out |-> {}, srch |-> {}, ctr |-> 1]

Opened(st) == IF st = "BEFORE_OPEN" THEN "OPENED" ELSE st
Closed(y)  == [y EXCEPT !.st = "CLOSED", !.out = {}, !.srch = {}]

Refused(y) == [post |-> y, res |-> "LDAPError", ret |-> 0, emit |-> <<>>]

\* ---- client calls ------------------------------------------------------------
\* bind / search_request / extended_request
ClientSend(y, kind) ==
    IF y.st = "CLOSED" THEN Refused(y)                                  \* CSendRefusedClosed
    ELSE IF kind = "bindReq" /\ y.out # {} THEN Refused(y)              \* CBindRefusedOutstanding
    ELSE IF kind # "bindReq" /\ y.st = "BINDING" THEN Refused(y)        \* CSendRefusedBinding
    ELSE [post |-> [y EXCEPT !.ctr = @ + 1,
                             !.out = @ \cup {y.ctr},
                             !.srch = IF kind = "searchReq" THEN @ \cup {y.ctr} ELSE @,
                             !.st = IF kind = "bindReq" THEN "BINDING" ELSE Opened(@)],
          res |-> "ok", ret |-> y.ctr, emit |-> <<Msg(kind, y.ctr)>>]

\* unbind(), either role: allowed in every state but CLOSED (also while BINDING)
Unbind(y) ==
    IF y.st = "CLOSED" THEN Refused(y)
    ELSE [post |-> Closed(y), res |-> "ok", ret |-> 0, emit |-> <<Msg("unbind", 0)>>]

\* ---- server calls ---------------------------------------------------------------
\* bind_response / extended_response / search_result_entry / _reference / _done
ServerSend(y, kind, id) ==
    IF y.st = "CLOSED" THEN Refused(y)                                                         \* SRespRefusedClosed
    ELSE IF y.st = "BINDING" /\ kind \notin {"bindRespOk", "bindRespProg", "notice"} THEN Refused(y)   \* SRespRefusedBinding
    ELSE IF id \notin y.out THEN Refused(y)                                                    \* SRespRefusedUnknownId
    ELSE [post |-> [y EXCEPT !.out = IF IsFinal(kind) THEN @ \ {id} ELSE @,
                             !.srch = IF kind = "done" THEN @ \ {id} ELSE @,     \* ghost on a server, see ServerProcess
                             !.st = IF kind = "notice" THEN "CLOSED"
                                    ELSE IF kind = "bindRespOk" THEN "OPENED"
                                    ELSE Opened(@)],
          res |-> "ok", ret |-> id, emit |-> <<Msg(kind, id)>>]
\* a server that closed itself by a notice of disconnection answers nothing any more
ServerSendClosedView(r) == IF r.post.st = "CLOSED" THEN [r EXCEPT !.post = Closed(r.post)] ELSE r
SSend(y, kind, id) == ServerSendClosedView(ServerSend(y, kind, id))

\* ---- receiving one decoded message -------------------------------------------------
\* err: "none", "term" (designed termination: unbind / notice of disconnection), "proto"
ClientProcess(y, m) ==
    IF m.k \in Terminators THEN [post |-> Closed(y), err |-> "term"]
    ELSE IF ~IsResponse(m) THEN [post |-> Closed(y), err |-> "proto"]                  \* a request-type message
    ELSE IF m.id \in y.srch THEN                                                       \* a search stays in progress until done
         [post |-> [y EXCEPT !.srch = IF m.k = "done" THEN @ \ {m.id} ELSE @,
                             !.out  = IF m.k = "done" THEN @ \ {m.id} ELSE @,
                             !.st   = IF m.k = "bindRespOk" THEN "OPENED" ELSE @], err |-> "none"]
    ELSE IF m.id \notin y.out THEN [post |-> Closed(y), err |-> "proto"]               \* unknown or completed id
    ELSE [post |-> [y EXCEPT !.out = @ \ {m.id},                                       \* completes on its first response
                             !.st  = IF m.k = "bindRespOk" THEN "OPENED" ELSE @], err |-> "none"]

ServerProcess(y, m) ==
    IF m.k \in Terminators THEN [post |-> Closed(y), err |-> "term"]
    ELSE IF ~IsRequest(m) THEN [post |-> Closed(y), err |-> "proto"]
    ELSE IF m.k = "bindReq" /\ y.out # {} THEN [post |-> Closed(y), err |-> "proto"]   \* bind with operations outstanding
    \* srch is a ghost variable on a server: no documented behaviour depends on which requests were searches, but
    \* the implementation keeps such a set, so the model distinguishes the states (the replay then holds a real
    \* representative for each of them, including "a search id answered by a non-search final response")
    ELSE [post |-> [y EXCEPT !.st = IF m.k = "bindReq" THEN "BINDING" ELSE Opened(@),
                             !.srch = IF m.k = "searchReq" THEN @ \cup {m.id} ELSE @,
                             !.out = @ \cup {m.id}], err |-> "none"]

Process(role, y, m) == IF role = "client" THEN ClientProcess(y, m) ELSE ServerProcess(y, m)

\* all units of one receive call, in order; processing stops at the first failure (the effects of the
\* earlier units are overwritten by the close)
RECURSIVE ProcessAll(_, _, _, _)
ProcessAll(role, y, ms, j) ==
    IF j > Len(ms) THEN [post |-> y, err |-> "none", n |-> Len(ms)]
    ELSE LET r == Process(role, y, ms[j]) IN
         IF r.err # "none" THEN [post |-> r.post, err |-> r.err, n |-> j - 1]
         ELSE ProcessAll(role, r.post, ms, j + 1)

\* receive(data) where data decodes to the complete units ms (plus, possibly, an incomplete tail that is kept)
Receive(role, y, ms) ==
    IF y.st = "CLOSED" THEN [post |-> y, res |-> "ProtocolError", ret |-> 0, emit |-> <<>>, err |-> "closed"]
    ELSE IF \E j \in 1..Len(ms) : ms[j].k = "garbage"
         THEN [post |-> Closed(y), res |-> "ProtocolError", ret |-> 0, emit |-> <<>>, err |-> "garbage"]
    ELSE LET r == ProcessAll(role, y, ms, 1) IN
         [post |-> r.post, res |-> IF r.err = "none" THEN "ok" ELSE "ProtocolError",
          ret |-> IF r.err = "none" THEN Len(ms) ELSE 0, emit |-> <<>>, err |-> r.err]

\* the notification the library attaches to a ProtocolError (ProtocolError.response): a server offers a notice of
\* disconnection unless the peer sent an unbind; a client offers an unbind unless the peer terminated the session itself
FirstFailing(role, y, ms) == LET r == ProcessAll(role, y, ms, 1) IN IF r.n < Len(ms) THEN ms[r.n + 1] ELSE Msg("none", 0)
Notification(role, y, ms, err) ==
    IF err = "term" THEN
        LET m == FirstFailing(role, y, ms) IN
        IF role = "server" /\ m.k = "notice" THEN "notice" ELSE "none"
    ELSE IF role = "server" THEN "notice" ELSE "unbind"
=============================================================================
