----------------------------- MODULE Filter4515 -----------------------------
(***************************************************************************)
(* RFC 4515 "String Representation of Search Filters": a reference parser  *)
(* over UTF-8 octet sequences, written from the ABNF of RFC 4515 section 3 *)
(* and RFC 4512 sections 1.4 / 2.5 (oid, descr, options), NOT from         *)
(* sansldap/_filter.py.                                                    *)
(*                                                                         *)
(*   filter     = LPAREN filtercomp RPAREN                                 *)
(*   filtercomp = and / or / not / item        and = AMPERSAND filterlist  *)
(*   item       = simple / present / substring / extensible                *)
(*   simple     = attr filtertype assertionvalue                           *)
(*   substring  = attr EQUALS [initial] any [final]                        *)
(*   any        = ASTERISK *(assertionvalue ASTERISK)                      *)
(*   extensible = ( attr [dnattrs] [matchingrule] COLON EQUALS value )     *)
(*              / ( [dnattrs] matchingrule COLON EQUALS value )            *)
(*   valueencoding = 0*(normal / escaped), escaped = ESC HEX HEX           *)
(*                                                                         *)
(* Parse(t, decorated): decorated = TRUE additionally tolerates the spaces *)
(* the library documents as tolerated (around the whole filter, after "("  *)
(* before the filter body, after & | !, between sibling filters, before    *)
(* the ")" that closes a composite filter); spaces before the ")" of an    *)
(* item are value octets.  decorated = FALSE is the pure RFC grammar.      *)
(*                                                                         *)
(* Trees use the filter records of LdapMsg.tla.                            *)
(***************************************************************************)
EXTENDS Naturals, Integers, Sequences, TLC

\* ---- character classes -------------------------------------------------------------
IsAlpha(c) == (c >= 65 /\ c <= 90) \/ (c >= 97 /\ c <= 122)
IsDigit(c) == c >= 48 /\ c <= 57
IsKeychar(c) == IsAlpha(c) \/ IsDigit(c) \/ c = 45
IsHex(c) == IsDigit(c) \/ (c >= 65 /\ c <= 70) \/ (c >= 97 /\ c <= 102)
HexVal(c) == IF IsDigit(c) THEN c - 48 ELSE IF c >= 97 THEN c - 87 ELSE c - 55
LP == 40  RP == 41  STAR == 42  ESC == 92  COLON == 58  EQ == 61  SEMI == 59  DOT == 46
AMP == 38  BAR == 124  BANG == 33  TILDE == 126  LT == 60  GT == 62  SPACE == 32

\* ---- RFC 4512: descr, numericoid, oid, attribute description over t[p..q] --------------
RECURSIVE AllKeychar(_, _, _)
AllKeychar(t, p, q) == p > q \/ (IsKeychar(t[p]) /\ AllKeychar(t, p + 1, q))
IsDescr(t, p, q) == p <= q /\ IsAlpha(t[p]) /\ AllKeychar(t, p + 1, q)
RECURSIVE NumEnd(_, _, _)
NumEnd(t, p, q) == IF p <= q /\ IsDigit(t[p]) THEN NumEnd(t, p + 1, q) ELSE p
\* number = DIGIT / ( LDIGIT 1*DIGIT ); arcs counted so far
RECURSIVE NumericOidFrom(_, _, _, _)
NumericOidFrom(t, p, q, arcs) ==
    LET e == NumEnd(t, p, q) IN
    IF e = p \/ (e - p > 1 /\ t[p] = 48) THEN 0          \* no digits / leading zero
    ELSE IF e > q THEN arcs + 1
    ELSE IF t[e] = DOT THEN NumericOidFrom(t, e + 1, q, arcs + 1)
    ELSE 0
\* number of arcs of a well-formed dotted number string, 0 if malformed
NumericArcs(t, p, q) == IF p > q THEN 0 ELSE NumericOidFrom(t, p, q, 0)
IsNumericOid(t, p, q) == NumericArcs(t, p, q) >= 2        \* numericoid = number 1*( DOT number )
IsOid(t, p, q) == IsDescr(t, p, q) \/ IsNumericOid(t, p, q)
IsSingleArc(t, p, q) == NumericArcs(t, p, q) = 1
RECURSIVE FirstOf(_, _, _, _)
FirstOf(t, p, q, c) == IF p > q THEN q + 1 ELSE IF t[p] = c THEN p ELSE FirstOf(t, p + 1, q, c)
RECURSIVE OptionsOK(_, _, _)
OptionsOK(t, p, q) ==     \* t[p..q] = *( SEMI 1*keychar )
    p > q \/ (t[p] = SEMI /\ LET e == FirstOf(t, p + 1, q, SEMI) IN e > p + 1 /\ AllKeychar(t, p + 1, e - 1) /\ OptionsOK(t, e, q))
IsAttrDesc(t, p, q) == LET s == FirstOf(t, p, q, SEMI) IN IsOid(t, p, s - 1) /\ OptionsOK(t, s, q)
\* the same with a one-arc numeric oid tolerated (classification of a known finding)
IsAttrDescSingleArcOK(t, p, q) == LET s == FirstOf(t, p, q, SEMI) IN (IsOid(t, p, s - 1) \/ IsSingleArc(t, p, s - 1)) /\ OptionsOK(t, s, q)
IsOidSingleArcOK(t, p, q) == IsOid(t, p, q) \/ IsSingleArc(t, p, q)
ValidAttr(a) == IsAttrDesc(a, 1, Len(a))
ValidRule(r) == IsOid(r, 1, Len(r))

\* ---- UTF-8 well-formedness of the raw octets >= 0x80 in t[p..q] (RFC 3629) ----------------
Cont(t, p, q) == p <= q /\ t[p] >= 128 /\ t[p] <= 191
RECURSIVE Utf8OK(_, _, _)
Utf8OK(t, p, q) ==
    IF p > q THEN TRUE
    ELSE LET c == t[p] IN
      IF c < 128 THEN Utf8OK(t, p + 1, q)
      ELSE IF c >= 194 /\ c <= 223 THEN Cont(t, p + 1, q) /\ Utf8OK(t, p + 2, q)
      ELSE IF c >= 224 /\ c <= 239 THEN
           /\ Cont(t, p + 1, q) /\ Cont(t, p + 2, q)
           /\ (c = 224 => t[p + 1] >= 160) /\ (c = 237 => t[p + 1] <= 159)
           /\ Utf8OK(t, p + 3, q)
      ELSE IF c >= 240 /\ c <= 244 THEN
           /\ Cont(t, p + 1, q) /\ Cont(t, p + 2, q) /\ Cont(t, p + 3, q)
           /\ (c = 240 => t[p + 1] >= 144) /\ (c = 244 => t[p + 1] <= 143)
           /\ Utf8OK(t, p + 4, q)
      ELSE FALSE

\* ---- assertion values ----------------------------------------------------------------------
Bad == [ok |-> FALSE]
\* unescape t[p..q]: raw NUL ( ) * \ are not allowed (the caller splits on raw STAR first)
RECURSIVE Unesc(_, _, _, _)
Unesc(t, p, q, acc) ==
    IF p > q THEN [ok |-> TRUE, v |-> acc]
    ELSE LET c == t[p] IN
      IF c = ESC THEN
         IF p + 2 <= q /\ IsHex(t[p + 1]) /\ IsHex(t[p + 2])
         THEN Unesc(t, p + 3, q, Append(acc, 16 * HexVal(t[p + 1]) + HexVal(t[p + 2])))
         ELSE Bad
      ELSE IF c = 0 \/ c = LP \/ c = RP \/ c = STAR THEN Bad
      ELSE Unesc(t, p + 1, q, Append(acc, c))
Value(t, p, q) == IF Utf8OK(t, p, q) THEN Unesc(t, p, q, <<>>) ELSE Bad

RECURSIVE SplitStar(_, _, _, _)
SplitStar(t, p, q, from) ==       \* split t[p..q] on raw STAR -> sequence of <<from, to>>
    IF p > q THEN << <<from, q>> >>
    ELSE IF t[p] = STAR THEN << <<from, p - 1>> >> \o SplitStar(t, p + 1, q, p + 1)
    ELSE SplitStar(t, p + 1, q, from)

Sub(t, p, q) == SubSeq(t, p, q)
Lower(c) == IF c >= 65 /\ c <= 90 THEN c + 32 ELSE c
IsDnExact(t, p, q) == q = p + 1 /\ t[p] = 100 /\ t[q] = 110
IsDnAnyCase(t, p, q) == q = p + 1 /\ Lower(t[p]) = 100 /\ Lower(t[q]) = 110

\* extensible header t[p..q] (everything before ":=").  amb: a segment spells "dn" in another letter case,
\* where the grammar itself is ambiguous (domain decision D4) - the caller does not compare trees then.
ExtHeader(t, p, q) ==
    LET c1 == FirstOf(t, p, q, COLON)
        hasAttr == c1 > p
    IN  IF hasAttr /\ ~IsAttrDesc(t, p, c1 - 1) THEN Bad
        ELSE IF c1 > q THEN
             IF hasAttr THEN [ok |-> TRUE, amb |-> FALSE, hasAttr |-> TRUE, attr |-> Sub(t, p, c1 - 1), dn |-> FALSE, hasRule |-> FALSE, rule |-> <<>>] ELSE Bad
        ELSE LET c2 == FirstOf(t, c1 + 1, q, COLON)
                 amb1 == IsDnAnyCase(t, c1 + 1, c2 - 1) /\ ~IsDnExact(t, c1 + 1, c2 - 1)
             IN  IF IsDnExact(t, c1 + 1, c2 - 1) THEN
                    IF c2 > q THEN
                       IF hasAttr THEN [ok |-> TRUE, amb |-> FALSE, hasAttr |-> TRUE, attr |-> Sub(t, p, c1 - 1), dn |-> TRUE, hasRule |-> FALSE, rule |-> <<>>] ELSE Bad
                    ELSE IF FirstOf(t, c2 + 1, q, COLON) <= q \/ ~IsOid(t, c2 + 1, q) THEN Bad
                    ELSE [ok |-> TRUE, amb |-> IsDnAnyCase(t, c2 + 1, q), hasAttr |-> hasAttr, attr |-> Sub(t, p, c1 - 1), dn |-> TRUE,
                          hasRule |-> TRUE, rule |-> Sub(t, c2 + 1, q)]
                 ELSE IF c2 <= q THEN (IF amb1 THEN [ok |-> TRUE, amb |-> TRUE, hasAttr |-> hasAttr, attr |-> Sub(t, p, c1 - 1), dn |-> TRUE, hasRule |-> FALSE, rule |-> <<>>] ELSE Bad)
                 ELSE IF ~IsOid(t, c1 + 1, q) THEN Bad
                 ELSE [ok |-> TRUE, amb |-> amb1, hasAttr |-> hasAttr, attr |-> Sub(t, p, c1 - 1), dn |-> FALSE, hasRule |-> TRUE, rule |-> Sub(t, c1 + 1, q)]

RECURSIVE ValuesOf(_, _, _)
ValuesOf(t, parts, j) == IF j > Len(parts) THEN <<>> ELSE <<Value(t, parts[j][1], parts[j][2])>> \o ValuesOf(t, parts, j + 1)

\* item t[p..q] (between the parentheses)
Item(t, p, q) ==
    LET e == FirstOf(t, p, q, EQ) IN
    IF e > q \/ e = p THEN Bad
    ELSE LET pre == t[e - 1] IN
      IF pre = COLON THEN
         LET h == IF e - 2 >= p THEN ExtHeader(t, p, e - 2) ELSE Bad
             v == Value(t, e + 1, q) IN
         IF h.ok /\ v.ok
         THEN [ok |-> TRUE, amb |-> h.amb, tree |-> [k |-> "ext", hasRule |-> h.hasRule, rule |-> h.rule, hasAttr |-> h.hasAttr,
                                                      attr |-> IF h.hasAttr THEN h.attr ELSE <<>>, v |-> v.v, dn |-> h.dn]]
         ELSE Bad
      ELSE IF pre = GT \/ pre = LT \/ pre = TILDE THEN
         LET v == Value(t, e + 1, q) IN
         IF e - 2 >= p /\ IsAttrDesc(t, p, e - 2) /\ v.ok
         THEN [ok |-> TRUE, amb |-> FALSE, tree |-> [k |-> IF pre = GT THEN "ge" ELSE IF pre = LT THEN "le" ELSE "approx", attr |-> Sub(t, p, e - 2), v |-> v.v]]
         ELSE Bad
      ELSE IF ~IsAttrDesc(t, p, e - 1) THEN Bad
      ELSE LET parts == SplitStar(t, e + 1, q, e + 1) IN
        IF Len(parts) = 1 THEN
           LET v == Value(t, e + 1, q) IN
           IF v.ok THEN [ok |-> TRUE, amb |-> FALSE, tree |-> [k |-> "eq", attr |-> Sub(t, p, e - 1), v |-> v.v]] ELSE Bad
        ELSE IF Len(parts) = 2 /\ parts[1][2] < parts[1][1] /\ parts[2][2] < parts[2][1]
           THEN [ok |-> TRUE, amb |-> FALSE, tree |-> [k |-> "present", attr |-> Sub(t, p, e - 1)]]
        ELSE LET us == ValuesOf(t, parts, 1)
                 n == Len(us)
             IN IF \E j \in 1..n : ~us[j].ok THEN Bad
                ELSE [ok |-> TRUE, amb |-> FALSE,
                      tree |-> [k |-> "sub", attr |-> Sub(t, p, e - 1),
                                hasIni |-> us[1].v # <<>>, ini |-> us[1].v,
                                any |-> [j \in 1..(n - 2) |-> us[j + 1].v],
                                hasFin |-> us[n].v # <<>>, fin |-> us[n].v]]

\* ---- filters ------------------------------------------------------------------------------------
RECURSIVE SkipSp(_, _, _)
SkipSp(t, p, dec) == IF dec /\ p <= Len(t) /\ t[p] = SPACE THEN SkipSp(t, p + 1, dec) ELSE p
RECURSIVE FilterAt(_, _, _), FilterList(_, _, _, _, _)
\* parse "(" ... ")" starting at p; result [ok, amb, tree, next]
FilterAt(t, p, dec) ==
    IF p > Len(t) \/ t[p] # LP THEN Bad
    ELSE LET b == SkipSp(t, p + 1, dec) IN
      IF b > Len(t) THEN Bad
      ELSE IF t[b] = AMP \/ t[b] = BAR \/ t[b] = BANG THEN
         LET l == FilterList(t, SkipSp(t, b + 1, dec), dec, <<>>, FALSE) IN
         IF ~l.ok \/ Len(l.trees) = 0 \/ l.next > Len(t) \/ t[l.next] # RP THEN Bad
         ELSE IF t[b] = BANG
              THEN (IF Len(l.trees) = 1 THEN [ok |-> TRUE, amb |-> l.amb, tree |-> [k |-> "not", f |-> l.trees[1]], next |-> l.next + 1] ELSE Bad)
              ELSE [ok |-> TRUE, amb |-> l.amb, tree |-> [k |-> IF t[b] = AMP THEN "and" ELSE "or", fs |-> l.trees], next |-> l.next + 1]
      ELSE LET r == FirstOf(t, b, Len(t), RP) IN
         IF r > Len(t) THEN Bad
         ELSE LET it == Item(t, b, r - 1) IN
              IF it.ok THEN [ok |-> TRUE, amb |-> it.amb, tree |-> it.tree, next |-> r + 1] ELSE Bad
FilterList(t, p, dec, acc, amb) ==
    IF p <= Len(t) /\ t[p] = LP THEN
       LET f == FilterAt(t, p, dec) IN
       IF f.ok THEN FilterList(t, SkipSp(t, f.next, dec), dec, Append(acc, f.tree), amb \/ f.amb) ELSE Bad
    ELSE [ok |-> TRUE, trees |-> acc, next |-> p, amb |-> amb]

Parse(t, dec) ==
    LET p == SkipSp(t, 1, dec)
        f == FilterAt(t, p, dec)
    IN  IF f.ok /\ SkipSp(t, f.next, dec) = Len(t) + 1 THEN [ok |-> TRUE, amb |-> f.amb, tree |-> f.tree] ELSE Bad
ParseStrict(t) == Parse(t, FALSE)
ParseDecorated(t) == Parse(t, TRUE)

\* ---- validity of the names in a tree (C15) ---------------------------------------------------------
\* 0 = all names valid, 1 = valid except for one-arc numeric oids / matching rules with options (known findings), 2 = invalid
Max(a, b) == IF a > b THEN a ELSE b
AttrGrade(a) == IF IsAttrDesc(a, 1, Len(a)) THEN 0 ELSE IF IsAttrDescSingleArcOK(a, 1, Len(a)) THEN 1 ELSE 2
RuleGrade(r) == IF IsOid(r, 1, Len(r)) THEN 0
                ELSE IF IsAttrDescSingleArcOK(r, 1, Len(r)) THEN 1      \* an oid followed by options, or a one-arc number
                ELSE 2
RECURSIVE NamesGrade(_), NamesGradeAll(_, _)
NamesGrade(f) ==
    CASE f.k \in {"and", "or"} -> NamesGradeAll(f.fs, 1)
      [] f.k = "not" -> NamesGrade(f.f)
      [] f.k = "ext" -> Max(IF f.hasAttr THEN AttrGrade(f.attr) ELSE 0, IF f.hasRule THEN RuleGrade(f.rule) ELSE 0)
      [] OTHER -> AttrGrade(f.attr)
NamesGradeAll(fs, j) == IF j > Len(fs) THEN 0 ELSE Max(NamesGrade(fs[j]), NamesGradeAll(fs, j + 1))
=============================================================================
