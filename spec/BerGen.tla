------------------------------ MODULE BerGen ------------------------------
(***************************************************************************)
(* Bounded-exhaustive generator and self-consistency check of the INTEGER, *)
(* identifier and length arithmetic of Ber.tla.                            *)
(*                                                                         *)
(* The state is a content octet string c built octet by octet from         *)
(* Alphabet up to MaxLen; every reachable state is one test case for the   *)
(* implementation (emitted as JSON by the constraint Emit) and in every    *)
(* state TLC evaluates the oracle's own theorems (X.690 8.3).              *)
(***************************************************************************)
EXTENDS Ber, TLC, Json

CONSTANTS Alphabet, MaxLen, EmitCases

VARIABLE c
vars == <<c>>

Init == c = <<>>
Next == Len(c) < MaxLen /\ \E o \in Alphabet : c' = Append(c, o)
Spec == Init /\ [][Next]_vars

Canon(x) == \* strip redundant sign octets
    IF IsMinimalInt(x) THEN x
    ELSE IntContent(IntValue(x))

\* ---- theorems of the oracle, checked in every state -------------------------
ValueIsLimb      == c # <<>> => IsLimb(IntValue(c))
ContentRoundTrip == (c # <<>> /\ IsMinimalInt(c)) => IntContent(IntValue(c)) = c
ValueRoundTrip   == c # <<>> => IntValue(IntContent(IntValue(c))) = IntValue(c)
ContentIsMinimal == c # <<>> => IsMinimalInt(IntContent(IntValue(c)))
PaddingIgnored   == c # <<>> => /\ IntValue(<<IF c[1] >= 128 THEN 255 ELSE 0>> \o c) = IntValue(c)
                                /\ IntValue(<<IF c[1] >= 128 THEN 255 ELSE 0, IF c[1] >= 128 THEN 255 ELSE 0>> \o c) = IntValue(c)
SmallAgrees      == (c # <<>> /\ Len(c) <= 3) =>
                       LET v == IntValue(c) IN LimbOfInt(SmallOfLimb(v)) = v
\* c read as a length / as a tag number: parse(write(x)) = x
LenRoundTrip     == LET lo == LenOctetsMin(c)
                        h == HeaderBig(<<4>> \o lo, 1)
                    IN  h.ok /\ h.len = StripZeros(c) /\ h.hl = 1 + Len(lo)
TagDigits        == [i \in 1..Len(c) |-> c[i] % 128]
TagRoundTrip     == \A cls \in 0..3 : \A cons \in 0..1 :
                       LET io == IdOctets(cls, cons, TagDigits)
                           h == HeaderBig(io \o <<0>>, 1)
                       IN  h.ok /\ h.cls = cls /\ h.cons = cons /\ h.num = StripZeros(TagDigits) /\ h.hl = Len(io) + 1

\* ---- emission of cases for the spec -> code replay -------------------------------
Case == [content |-> c,
         value   |-> IntValue(c),
         minimal |-> IsMinimalInt(c),
         canon   |-> Canon(c),
         lenoct  |-> LenOctetsMin(c),
         idoct   |-> IdOctets(Len(c) % 4, (Len(c) \div 4) % 2, TagDigits),
         tagnum  |-> StripZeros(TagDigits)]
Emit == (EmitCases /\ c # <<>>) => PrintT(<<"CASE", ToJson(Case)>>)
=============================================================================
