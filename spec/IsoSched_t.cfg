CONSTANTS
  LenA = 7
  LenB = 7
SPECIFICATION Spec
CHECK_DEADLOCK FALSE
INVARIANT WellFormed
CONSTRAINT Emit
