CONSTANTS
  LenFormMap <- LenFormMapAll
  BoolMap <- LenFormMapAll
  TrailMap <- LenFormMapAll
SPECIFICATION Spec
CHECK_DEADLOCK FALSE
POSTCONDITION AllConsumed
