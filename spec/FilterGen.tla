------------------------------ MODULE FilterGen ------------------------------
(***************************************************************************)
(* Generator of RFC 4515 filters: every derivation of the grammar (node    *)
(* kinds, attribute descriptions, value units raw or escaped in either hex *)
(* case, substring shapes, extensible-match forms, tolerated decoration)   *)
(* up to the bounds of the configuration, as a deterministic function      *)
(* Build(ch) of a choice sequence (DESIGN 3.7): breadth-first TLC          *)
(* enumerates every derivation once, `tlc -simulate` samples deep ones.    *)
(* Each complete derivation is emitted as [tree, text]; the tree is what   *)
(* the grammar denotes, the text is one of its sentences.                  *)
(*                                                                         *)
(* In every complete state TLC checks the reference parser on its own      *)
(* sentences: ParseDecorated(text) = tree, and ParseStrict(text) = tree    *)
(* when no decoration was used (Parse o Unparse contains id).              *)
(***************************************************************************)
EXTENDS Filter4515, Json

CONSTANTS MaxDepth,        \* nesting depth of composite filters
          MaxKids,         \* fan-out of and / or
          NAttr, NRule,    \* how many entries of the pools are used
          NUnits,          \* how many value units of the alphabet are used
          MaxValLen,       \* units per value
          MaxAny,          \* `any` components of a substring filter
          Decor,           \* maximal number of spaces at each tolerated position (0 = pure RFC 4515)
          EscStyles,       \* 1: canonical (raw when allowed, else lower-case hex); 3: also forced lower / upper hex; 5: also mixed-case hex pairs
          LeafKinds,       \* sequence of enabled leaf kinds: 0 eq, 1 ge, 2 le, 3 approx, 4 present, 5 substring, 6 extensible
          AllowEmptyAny,   \* derive substring filters whose `any` component is the empty assertionvalue
          MaxChoices

\* ---- pools -----------------------------------------------------------------------------
AttrPool == << <<99, 110>>,                                                   \* cn
               <<111, 98, 106, 101, 99, 116, 67, 108, 97, 115, 115>>,          \* objectClass
               <<49, 46, 50, 46, 56, 52, 48, 46, 49, 49, 51, 53, 53, 54>>,     \* 1.2.840.113556
               <<99, 110, 59, 108, 97, 110, 103, 45, 101, 110>>,               \* cn;lang-en
               <<50, 46, 53, 46, 52, 46, 51, 59, 98, 105, 110, 97, 114, 121, 59, 120, 45, 49>>,   \* 2.5.4.3;binary;x-1
               <<97, 45, 98, 45>>,                                             \* a-b-
               <<111>>,                                                        \* o
               <<48, 46, 48>>,                                                 \* 0.0
               <<67, 78>>,                                                     \* CN      (same description, other letter case)
               <<79, 66, 74, 69, 67, 84, 67, 76, 65, 83, 83>>,                 \* OBJECTCLASS
               <<67, 110, 59, 76, 65, 78, 71, 45, 101, 110>>,                  \* Cn;LANG-en
               <<100, 110>> >>                                                 \* dn      (an attribute named like the dnattrs keyword)
RulePool == << <<99, 97, 115, 101, 69, 120, 97, 99, 116, 77, 97, 116, 99, 104>>,   \* caseExactMatch
               <<49, 46, 50, 46, 51>>,                                              \* 1.2.3
               <<50, 46, 53, 46, 49, 51, 46, 53>>,                                  \* 2.5.13.5
               <<120, 45, 49>>,                                                     \* x-1
               <<100, 110, 83, 117, 98, 116, 114, 101, 101, 77, 97, 116, 99, 104>>, \* dnSubtreeMatch (begins like the dnattrs keyword)
               <<100, 110, 45, 49>> >>                                              \* dn-1
\* value units: the adversarial alphabet of C13 (each unit is raw-able only if it is `normal` and well-formed UTF-8)
UnitPool == << <<97>>, <<42>>, <<40>>, <<41>>, <<92>>, <<0>>, <<32>>, <<58>>, <<61>>, <<195, 169>>, <<126>>, <<60>>, <<10>>, <<127>>,
               <<171>>, <<255>>, <<240, 159, 152, 128>>, <<62>>, <<38>>, <<124>>, <<33>>, <<50, 97>>, <<226, 130, 172>>,
               <<101, 204, 129>>, <<226, 132, 171>> >>   \* e + COMBINING ACUTE (not NFC), ANGSTROM SIGN (NFC maps it to U+00C5)

Hex(d, upper) == IF d < 10 THEN 48 + d ELSE (IF upper THEN 55 ELSE 87) + d
\* each of the two hex digits picks its letter case independently (RFC 4515: HEX = DIGIT / %x41-46 / %x61-66)
Escaped2(u, up1, up2) == [j \in 1..(3 * Len(u)) |->
                         LET o == u[(j + 2) \div 3] r == (j - 1) % 3 IN
                         IF r = 0 THEN ESC ELSE IF r = 1 THEN Hex(o \div 16, up1) ELSE Hex(o % 16, up2)]
Escaped(u, upper) == Escaped2(u, upper, upper)
RawOK(u) == Utf8OK(u, 1, Len(u)) /\ \A j \in 1..Len(u) : u[j] \notin {0, LP, RP, STAR, ESC}
UnitText(u, style) == IF style = 0 THEN (IF RawOK(u) THEN u ELSE Escaped(u, FALSE))
                      ELSE IF style = 1 THEN Escaped(u, FALSE) ELSE IF style = 2 THEN Escaped(u, TRUE)
                      ELSE IF style = 3 THEN Escaped2(u, TRUE, FALSE) ELSE Escaped2(u, FALSE, TRUE)

Need(n) == [need |-> n]
HasNeed(r) == "need" \in DOMAIN r
Spaces(n) == [j \in 1..n |-> SPACE]

\* ---- value: [v, s, i] ------------------------------------------------------------------------
RECURSIVE ValUnits(_, _, _, _, _)
ValUnits(ch, i, left, v, s) ==
    IF left = 0 THEN [v |-> v, s |-> s, i |-> i]
    ELSE IF i > Len(ch) THEN Need(NUnits)
    ELSE IF EscStyles = 1 THEN ValUnits(ch, i + 1, left - 1, v \o UnitPool[ch[i] + 1], s \o UnitText(UnitPool[ch[i] + 1], 0))
    ELSE IF i + 1 > Len(ch) THEN Need(EscStyles)
    ELSE ValUnits(ch, i + 2, left - 1, v \o UnitPool[ch[i] + 1], s \o UnitText(UnitPool[ch[i] + 1], ch[i + 1]))
\* a value of minLen..MaxValLen units
Val(ch, i, minLen) ==
    IF i > Len(ch) THEN Need(MaxValLen - minLen + 1)
    ELSE ValUnits(ch, i + 1, minLen + ch[i], <<>>, <<>>)

\* ---- leaves ------------------------------------------------------------------------------------
Attr(ch, i) == IF i > Len(ch) THEN Need(NAttr) ELSE [a |-> AttrPool[ch[i] + 1], i |-> i + 1]

Simple(ch, i, kind) ==   \* eq ge le approx
    LET a == Attr(ch, i) IN IF HasNeed(a) THEN a ELSE
    LET v == Val(ch, a.i, 0) IN IF HasNeed(v) THEN v ELSE
    [t |-> [k |-> kind, attr |-> a.a, v |-> v.v],
     s |-> a.a \o (CASE kind = "eq" -> <<EQ>> [] kind = "ge" -> <<GT, EQ>> [] kind = "le" -> <<LT, EQ>> [] kind = "approx" -> <<TILDE, EQ>>) \o v.s,
     i |-> v.i]

Present(ch, i) == LET a == Attr(ch, i) IN IF HasNeed(a) THEN a ELSE [t |-> [k |-> "present", attr |-> a.a], s |-> a.a \o <<EQ, STAR>>, i |-> a.i]

RECURSIVE AnyParts(_, _, _, _, _)
AnyParts(ch, i, left, vs, s) ==     \* s accumulates  value "*" value "*" ...
    IF left = 0 THEN [vs |-> vs, s |-> s, i |-> i]
    ELSE LET v == Val(ch, i, IF AllowEmptyAny THEN 0 ELSE 1) IN
         IF HasNeed(v) THEN v ELSE AnyParts(ch, v.i, left - 1, Append(vs, v.v), s \o v.s \o <<STAR>>)
Substring(ch, i) ==
    LET a == Attr(ch, i) IN IF HasNeed(a) THEN a ELSE
    \* shape: hasIni (2) x nAny (0..MaxAny) x hasFin (2); the all-absent shape is "present", not a substring filter
    IF a.i > Len(ch) THEN Need(2 * (MaxAny + 1) * 2 - 1) ELSE
    LET shape == ch[a.i] + 1
        hasIni == shape % 2 = 1
        nAny == (shape \div 2) % (MaxAny + 1)
        hasFin == shape \div (2 * (MaxAny + 1)) = 1
        ini == IF hasIni THEN Val(ch, a.i + 1, 1) ELSE [v |-> <<>>, s |-> <<>>, i |-> a.i + 1]
    IN  IF HasNeed(ini) THEN ini ELSE
        LET any == AnyParts(ch, ini.i, nAny, <<>>, <<>>) IN IF HasNeed(any) THEN any ELSE
        LET fin == IF hasFin THEN Val(ch, any.i, 1) ELSE [v |-> <<>>, s |-> <<>>, i |-> any.i] IN IF HasNeed(fin) THEN fin ELSE
        [t |-> [k |-> "sub", attr |-> a.a, hasIni |-> hasIni, ini |-> ini.v, any |-> any.vs, hasFin |-> hasFin, fin |-> fin.v],
         s |-> a.a \o <<EQ>> \o ini.s \o <<STAR>> \o any.s \o fin.s,
         i |-> fin.i]

Extensible(ch, i) ==
    \* form 0..4: attr | attr:dn | attr:rule | attr:dn:rule | :rule | :dn:rule
    IF i > Len(ch) THEN Need(6) ELSE
    LET form == ch[i]
        hasAttr == form <= 3
        dn == form \in {1, 3, 5}
        hasRule == form \in {2, 3, 4, 5}
        a == IF hasAttr THEN Attr(ch, i + 1) ELSE [a |-> <<>>, i |-> i + 1]
    IN  IF HasNeed(a) THEN a ELSE
        LET r == IF hasRule THEN (IF a.i > Len(ch) THEN Need(NRule) ELSE [r |-> RulePool[ch[a.i] + 1], i |-> a.i + 1]) ELSE [r |-> <<>>, i |-> a.i] IN
        IF HasNeed(r) THEN r ELSE
        LET v == Val(ch, r.i, 0) IN IF HasNeed(v) THEN v ELSE
        [t |-> [k |-> "ext", hasRule |-> hasRule, rule |-> r.r, hasAttr |-> hasAttr, attr |-> a.a, v |-> v.v, dn |-> dn],
         s |-> a.a \o (IF dn THEN <<COLON, 100, 110>> ELSE <<>>) \o (IF hasRule THEN <<COLON>> \o r.r ELSE <<>>) \o <<COLON, EQ>> \o v.s,
         i |-> v.i]

Deco(ch, i) == IF Decor = 0 THEN [n |-> 0, i |-> i] ELSE IF i > Len(ch) THEN Need(Decor + 1) ELSE [n |-> ch[i], i |-> i + 1]

\* ---- filters: "(" [sp] body ")" -------------------------------------------------------------------
KindsAt(depth) == IF depth > 0 THEN LeafKinds \o <<7, 8, 9>> ELSE LeafKinds
\* kind tables a configuration can substitute for LeafKinds
KAll == <<0, 1, 2, 3, 4, 5, 6>>   KNoSub == <<0, 1, 2, 3, 4, 6>>   KEqSub == <<0, 5>>   KEqPresent == <<0, 4>>   KEq == <<0>>   KSub == <<5>>   KExt == <<6>>
RECURSIVE Filter(_, _, _), Kids(_, _, _, _, _, _)
Filter(ch, i, depth) ==
    LET d1 == Deco(ch, i) IN IF HasNeed(d1) THEN d1 ELSE
    IF d1.i > Len(ch) THEN Need(Len(KindsAt(depth))) ELSE
    LET kind == KindsAt(depth)[ch[d1.i] + 1]
        j == d1.i + 1
        body == CASE kind = 0 -> Simple(ch, j, "eq") [] kind = 1 -> Simple(ch, j, "ge") [] kind = 2 -> Simple(ch, j, "le")
                  [] kind = 3 -> Simple(ch, j, "approx") [] kind = 4 -> Present(ch, j) [] kind = 5 -> Substring(ch, j) [] kind = 6 -> Extensible(ch, j)
                  [] kind = 7 ->       \* not
                       LET d2 == Deco(ch, j) IN IF HasNeed(d2) THEN d2 ELSE
                       LET f == Filter(ch, d2.i, depth - 1) IN IF HasNeed(f) THEN f ELSE
                       LET d3 == Deco(ch, f.i) IN IF HasNeed(d3) THEN d3 ELSE
                       [t |-> [k |-> "not", f |-> f.t], s |-> <<BANG>> \o Spaces(d2.n) \o f.s \o Spaces(d3.n), i |-> d3.i]
                  [] kind \in {8, 9} ->  \* and / or with 1..MaxKids filters
                       LET d2 == Deco(ch, j) IN IF HasNeed(d2) THEN d2 ELSE
                       IF d2.i > Len(ch) THEN Need(MaxKids) ELSE
                       LET ks == Kids(ch, d2.i + 1, ch[d2.i] + 1, depth - 1, <<>>, <<>>) IN IF HasNeed(ks) THEN ks ELSE
                       [t |-> [k |-> IF kind = 8 THEN "and" ELSE "or", fs |-> ks.ts], s |-> <<IF kind = 8 THEN AMP ELSE BAR>> \o Spaces(d2.n) \o ks.s, i |-> ks.i]
    IN  IF HasNeed(body) THEN body
        ELSE [t |-> body.t, s |-> <<LP>> \o Spaces(d1.n) \o body.s \o <<RP>>, i |-> body.i]
Kids(ch, i, left, depth, ts, s) ==
    IF left = 0 THEN [ts |-> ts, s |-> s, i |-> i]
    ELSE LET f == Filter(ch, i, depth) IN IF HasNeed(f) THEN f ELSE
         LET d == Deco(ch, f.i) IN IF HasNeed(d) THEN d ELSE
         Kids(ch, d.i, left - 1, depth, Append(ts, f.t), s \o f.s \o Spaces(d.n))

Top(ch) ==
    LET d0 == Deco(ch, 1) IN IF HasNeed(d0) THEN d0 ELSE
    LET f == Filter(ch, d0.i, MaxDepth) IN IF HasNeed(f) THEN f ELSE
    LET d9 == Deco(ch, f.i) IN IF HasNeed(d9) THEN d9 ELSE
    [t |-> f.t, s |-> Spaces(d0.n) \o f.s \o Spaces(d9.n), i |-> d9.i]

\* ---- state machine -----------------------------------------------------------------------------------
VARIABLES ch, done
vars == <<ch, done>>
Init == ch = <<>> /\ done = FALSE
Next == /\ ~done
        /\ LET r == Top(ch) IN
           IF HasNeed(r)
           THEN /\ Len(ch) < MaxChoices /\ \E x \in 0..(r.need - 1) : ch' = Append(ch, x) /\ done' = FALSE
           ELSE /\ done' = TRUE /\ ch' = ch
                /\ PrintT(<<"CASE", ToJson([tree |-> r.t, text |-> r.s])>>)
Spec == Init /\ [][Next]_vars

\* ---- the reference parser on the generator's own sentences ------------------------------------------------
ParseOfUnparse ==
    done => LET r == Top(ch) p == ParseDecorated(r.s) IN p.ok /\ ~p.amb /\ p.tree = r.t
StrictWhenUndecorated ==
    (done /\ Decor = 0) => LET r == Top(ch) p == ParseStrict(r.s) IN p.ok /\ p.tree = r.t
NamesValid == done => NamesGrade(Top(ch).t) = 0
=============================================================================
